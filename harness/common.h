// Shared declarations of the executor components.
#pragma once
#include <asam_cmp/analog_payload.h>
#include <asam_cmp/can_fd_payload.h>
#include <asam_cmp/can_payload.h>
#include <asam_cmp/capture_module_payload.h>
#include <asam_cmp/decoder.h>
#include <asam_cmp/encoder.h>
#include <asam_cmp/ethernet_payload.h>
#include <asam_cmp/interface_payload.h>
#include <asam_cmp/lin_payload.h>
#include <asam_cmp/packet.h>
#include <asam_cmp/status.h>
#include <asam_cmp/tecmp_decoder.h>

#include "ops.h"

uint64_t beValue(const nlohmann::json& a);
ASAM::CMP::Packet makePacket(const nlohmann::json& p);
void logBatchPacket(Out& o, const nlohmann::json& p);
void snapPacket(Out& o, const ASAM::CMP::Packet& p);
void snapStatus(Out& o, const ASAM::CMP::Status& st, const nlohmann::json& probe);
void logPending(Out& o, const char* key, const ASAM::CMP::Decoder& dec);
void logFrames(Out& o, const char* k, const std::vector<std::vector<uint8_t>>& frames, size_t maxSize = SIZE_MAX);

void runEnc(const nlohmann::json& ep);
void runDec(const nlohmann::json& ep);
void runObj(const nlohmann::json& ep);
void runSt(const nlohmann::json& ep);
void runVal(const nlohmann::json& ep);
void runVld(const nlohmann::json& ep);
