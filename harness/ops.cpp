// Dispatch of episodes to components.
#include "common.h"

void runEpisode(const nlohmann::json& ep)
{
    const std::string comp = ep.value("comp", "");
    if (comp == "enc")
        runEnc(ep);
    else if (comp == "dec")
        runDec(ep);
    else if (comp == "obj")
        runObj(ep);
    else if (comp == "st")
        runSt(ep);
    else if (comp == "val")
        runVal(ep);
    else if (comp == "vld")
        runVld(ep);
    else
    {
        Out o;
        o.obj().kv("e", "unknown-comp").kv("comp", comp).end();
        emitLine(o.str());
    }
}
