// Decoder component: new / sent (annotation pass-through) / decode / restore / recheck.
// Input buffers are presented from a read-only mapping that ends (or starts) at an inaccessible page and is
// unmapped before the returned packets are looked at, so a read outside the buffer, a write to it, or a
// packet that does not own its data ends the worker (crash event).
#include <sys/mman.h>
#include <unistd.h>

#include <deque>
#include <map>

#include "common.h"

using nlohmann::json;
using namespace ASAM::CMP;

namespace
{
class GuardedBuffer
{
public:
    GuardedBuffer(const std::vector<uint8_t>& bytes, bool atStart)
    {
        const size_t page = static_cast<size_t>(sysconf(_SC_PAGESIZE));
        const size_t dataPages = (bytes.size() + page - 1) / page + (bytes.empty() ? 1 : 0);
        total = (dataPages + 2) * page;
        base = static_cast<uint8_t*>(mmap(nullptr, total, PROT_READ | PROT_WRITE, MAP_PRIVATE | MAP_ANONYMOUS, -1, 0));
        if (base == MAP_FAILED)
            _exit(3);
        // [guard][data pages][guard]
        uint8_t* dataBegin = base + page;
        uint8_t* dataEnd = base + page + dataPages * page;
        ptr = atStart ? dataBegin : dataEnd - bytes.size();
        if (!bytes.empty())
            memcpy(ptr, bytes.data(), bytes.size());
        mprotect(base, page, PROT_NONE);
        mprotect(dataEnd, page, PROT_NONE);
        mprotect(dataBegin, dataPages * page, PROT_READ);
    }
    ~GuardedBuffer() { release(); }
    void release()
    {
        if (base)
            munmap(base, total);
        base = nullptr;
    }
    const uint8_t* data() const { return ptr; }

private:
    uint8_t* base{nullptr};
    uint8_t* ptr{nullptr};
    size_t total{0};
};

using Endpoint = std::pair<int, int>;

struct State
{
    Decoder shared;
    std::map<Endpoint, Decoder> solo;
};


std::string snapAll(const std::vector<std::shared_ptr<Packet>>& pkts)
{
    Out o;
    o.arr();
    for (const auto& p : pkts)
    {
        if (!p)
            o.obj().kv("null", true).end();
        else
            snapPacket(o, *p);
    }
    o.endArr();
    return o.str();
}
}

void runDec(const json& ep)
{
    auto state = std::make_unique<State>();
    std::map<int, State> slots;
    const bool solo = ep.value("solo", false);
    const bool hook = ep.value("hook", true);
    const bool recheck = ep.value("recheck", false);
    std::vector<std::shared_ptr<Packet>> kept;
    std::string keptOrig = "[";
    // real encoders feeding this decoder: their frames wait in per-encoder queues and are fed, dropped,
    // duplicated or held back as the case says
    std::map<int, Encoder> encoders;
    std::map<int, std::deque<std::vector<uint8_t>>> queues;
    std::map<int, std::vector<uint8_t>> lastFed, held;
    long k = 0;
    for (const auto& op : ep.at("ops"))
    {
        noteOp(k++);
        const std::string name = op.at("op");
        Out o;
        if (name == "new")
        {
            state = std::make_unique<State>();
            o.obj().kv("e", "dec.new");
            if (hook)
                logPending(o, "pend", state->shared);
            o.end();
            slots[0] = *state;
        }
        else if (name == "sent")
        {
            o.obj().kv("e", "dec.sent").raw("msgs", op.at("msgs").dump());
            if (op.contains("save"))
            {
                slots[op["save"].get<int>()] = *state;
                o.kv("save", op["save"].get<int>());
            }
            o.end();
        }
        else if (name == "restore")
        {
            const int slot = op.at("slot").get<int>();
            *state = slots.at(slot);
            o.obj().kv("e", "dec.restore").kv("slot", slot).end();
        }
        else if (name == "tdecode")
        {
            // the static TECMP decoder called directly (it is public API too)
            const std::vector<uint8_t> in = bytesOf(op.at("in"));
            std::vector<std::shared_ptr<Packet>> out;
            {
                GuardedBuffer buf(in, op.value("place", 0) == 1);
                out = TECMP::Decoder::Decode(buf.data(), in.size());
                buf.release();
            }
            o.obj().kv("e", "dec.tdecode").bytes("in", in).raw("out", snapAll(out)).end();
        }
        else if (name == "enc.new")
        {
            const int e = op.at("enc").get<int>();
            encoders[e] = Encoder();
            encoders[e].setDeviceId(static_cast<uint16_t>(op.at("dev").get<int>()));
            encoders[e].setStreamId(static_cast<uint8_t>(op.at("stream").get<int>()));
            const int target = op.value("seq", 0);
            const uint8_t one = 0x5A;
            Packet w;
            w.setPayload(Payload(PayloadType(CmpHeader::MessageType::data, 0xFF), &one, 1));
            for (long guard = 0; target != 0 && encoders[e].getSequenceCounter() != target && guard < 70000; ++guard)
                encoders[e].encode(w, {0, 64});
            o.obj().kv("e", "dec.note").kv("what", "enc.new").kv("enc", e).end();
        }
        else if (name == "enc.encode")
        {
            const int e = op.at("enc").get<int>();
            std::vector<Packet> batch;
            for (const auto& p : op.at("batch"))
                batch.push_back(makePacket(p));
            DataContext ctx{op.at("ctx").at("min").get<size_t>(), op.at("ctx").at("max").get<size_t>()};
            for (auto& f : encoders[e].encode(batch.begin(), batch.end(), ctx))
                queues[e].push_back(std::move(f));
            // what this sender has now sent (declared to the judge)
            o.obj().kv("e", "dec.sent").arr("msgs");
            for (const auto& p : op.at("batch"))
            {
                o.obj().arr("ep").val(static_cast<long long>(encoders[e].getDeviceId())).val(static_cast<long long>(encoders[e].getStreamId())).endArr();
                o.key("p");
                logBatchPacket(o, p);
                o.end();
            }
            o.endArr().end();
        }
        else if (name == "decode" || name == "feed" || name == "refeed" || name == "release" || name == "drop" || name == "hold")
        {
            std::vector<uint8_t> in;
            if (name == "decode")
                in = bytesOf(op.at("in"));
            else
            {
                const int e = op.at("enc").get<int>();
                bool have = false;
                if (name == "feed" || name == "drop" || name == "hold")
                {
                    if (!queues[e].empty())
                    {
                        in = queues[e].front();
                        queues[e].pop_front();
                        have = true;
                    }
                    if (have && name == "hold")
                        held[e] = in;
                    if (have && name == "feed")
                        lastFed[e] = in;
                }
                else if (name == "refeed" && lastFed.count(e))
                {
                    in = lastFed[e];
                    have = true;
                }
                else if (name == "release" && held.count(e))
                {
                    in = held[e];
                    held.erase(e);
                    lastFed[e] = in;
                    have = true;
                }
                if (!have || name == "drop" || name == "hold")
                {
                    o.obj().kv("e", "dec.note").kv("what", name).kv("enc", e).kv("had", have).end();
                    emitLine(o.str());
                    continue;
                }
            }
            const bool isNull = op.value("null", false);
            std::string before;
            if (hook && op.value("pendBefore", false))
            {
                Out b;
                logPending(b, "pendBefore", state->shared);
                before = b.str();
            }
            std::vector<std::shared_ptr<Packet>> out;
            std::vector<std::shared_ptr<Packet>> soloOut;
            {
                GuardedBuffer buf(in, op.value("place", 0) == 1);
                out = state->shared.decode(isNull ? nullptr : buf.data(), in.size());
                if (solo && !isNull && in.size() >= 8 && in[0] != 0)
                {
                    // the solo decoder of this frame's endpoint sees only that endpoint's frames
                    Endpoint e{(in[2] << 8) | in[3], in[5]};
                    soloOut = state->solo[e].decode(buf.data(), in.size());
                }
                buf.release();   // the input is gone before the packets are looked at
            }
            o.obj().kv("e", "dec.decode");
            if (isNull)
                o.kv("null", true);
            o.bytes("in", isNull ? std::vector<uint8_t>() : in);
            o.raw("out", snapAll(out));
            if (hook)
                logPending(o, "pend", state->shared);
            if (!before.empty())
                o.raw("pendBefore", before.substr(before.find(':') + 1));
            if (solo)
                o.raw("solo", snapAll(soloOut));
            if (op.contains("meta"))
                o.raw("meta", op["meta"].dump());
            if (op.contains("save"))
            {
                slots[op["save"].get<int>()] = *state;
                o.kv("save", op["save"].get<int>());
            }
            o.end();
            if (recheck)
            {
                for (const auto& p : out)
                {
                    kept.push_back(p);
                    Out one;
                    if (p)
                        snapPacket(one, *p);
                    else
                        one.obj().kv("null", true).end();
                    if (keptOrig.size() > 1)
                        keptOrig += ',';
                    keptOrig += one.str();
                }
            }
        }
        else
        {
            o.obj().kv("e", "unknown-op").kv("op", name).end();
        }
        emitLine(o.str());
    }
    if (recheck)
    {
        // the decoder and every saved copy are destroyed; the packets handed out earlier must be unchanged
        noteOp(k);
        state.reset();
        slots.clear();
        Out o;
        o.obj().kv("e", "dec.recheck").raw("orig", keptOrig + "]").raw("now", snapAll(kept)).end();
        emitLine(o.str());
    }
}
