// Executor: runs operation sequences ("cases", ndjson, one episode per line) on the real
// library objects and logs one ndjson event per public call: arguments and everything
// observable afterwards.  It contains no oracle: TLC judges the log against the TLA+
// specification (spec/Trace*.tla).
//
//   exec <cases.ndjson> <trace.ndjson> [--nofork]
//
// Episodes run in a forked worker that flushes after every event; when the worker dies
// (signal, sanitizer abort, std::terminate, watchdog) the parent appends a "crash" event
// for the episode in progress and resumes with the next one.
#include <sys/mman.h>
#include <sys/wait.h>
#include <unistd.h>
#include <csignal>
#include <cstdio>
#include <cstdlib>
#include <cstring>
#include <fstream>
#include <iostream>
#include <string>
#include <map>
#include <random>
#include <thread>
#include <vector>

#include <nlohmann/json.hpp>

#include "ops.h"

using nlohmann::json;

struct Shared
{
    volatile long episode;   // index of the episode in progress
    volatile long opIndex;   // index of the op in progress inside it
    volatile long done;      // worker finished all episodes
};

static Shared* shared = nullptr;
static thread_local FILE* out = nullptr;
// threaded mode: injected yields so that the interleaving differs from run to run (seeded)
static thread_local std::mt19937* yieldRng = nullptr;

void emitLine(const std::string& s)
{
    fwrite(s.data(), 1, s.size(), out);
    fputc('\n', out);
    fflush(out);
}

// C20: what an uninitialised local variable of the library reads is whatever the stack held before.  With
// VERIF_STACK_FILL=<byte> the stack region the next call is going to use is filled with that byte before every
// operation; two runs of the same workload with different bytes must produce identical logs (TraceSame).  Not set in
// the memcheck runs: writing the pattern would make the region look initialised.
static void __attribute__((noinline)) dirtyStack()
{
    static const int pattern = [] {
        const char* e = getenv("VERIF_STACK_FILL");
        return e ? atoi(e) : -1;
    }();
    if (pattern < 0)
        return;
    volatile uint8_t region[96 * 1024];
    for (size_t i = 0; i < sizeof region; ++i)
        region[i] = static_cast<uint8_t>(pattern);
}

void noteOp(long k)
{
    dirtyStack();
    if (yieldRng)
    {
        const unsigned r = (*yieldRng)() % 8;
        if (r < 3)
            std::this_thread::yield();
        else if (r == 3)
            std::this_thread::sleep_for(std::chrono::microseconds((*yieldRng)() % 50));
        return;
    }
    if (shared)
        shared->opIndex = k;
}

static void terminateHandler()
{
    // an uncaught exception is a crash of the call in progress
    _exit(86);
}

static int watchdogSeconds()
{
    const char* e = getenv("VERIF_WATCHDOG");
    return e ? atoi(e) : 20;
}

static void runEpisodes(const std::vector<std::string>& lines, long from)
{
    std::set_terminate(terminateHandler);
    for (long i = from; i < static_cast<long>(lines.size()); ++i)
    {
        if (shared)
        {
            shared->episode = i;
            shared->opIndex = -1;
        }
        alarm(watchdogSeconds());
        json c = json::parse(lines[i]);
        Out o;
        o.obj().kv("e", "begin").kv("id", c.value("id", std::to_string(i))).kv("comp", c.value("comp", "")).end();
        emitLine(o.str());
        runEpisode(c);
        alarm(0);
    }
    if (shared)
        shared->done = 1;
}

#include <atomic>
static std::atomic<int> threadsWaiting{0};

static void runThreadWorkload(const std::vector<std::string>& lines, const std::string& path, unsigned seed, bool yields, int barrier)
{
    out = fopen(path.c_str(), "w");
    if (!out)
        _exit(4);
    std::mt19937 rng(seed);
    yieldRng = yields ? &rng : nullptr;
    if (barrier > 0)
    {
        // all threads start their workloads together
        threadsWaiting.fetch_add(1);
        while (threadsWaiting.load() < barrier)
            std::this_thread::yield();
    }
    for (const auto& line : lines)
    {
        json c = json::parse(line);
        Out o;
        o.obj().kv("e", "begin").kv("id", c.value("id", "")).kv("comp", c.value("comp", "")).end();
        emitLine(o.str());
        runEpisode(c);
    }
    Out o;
    o.obj().kv("e", "end-thread").end();
    emitLine(o.str());
    fclose(out);
    out = nullptr;
    yieldRng = nullptr;
}

// exec --threads <cases> <prefix>: every episode names its thread; each thread's workload is run once alone
// (<prefix>.alone.<k>) and once concurrently with all the others (<prefix>.conc.<k>), one log per thread.
static int threadedMain(const char* casesPath, const std::string& prefix)
{
    std::map<int, std::vector<std::string>> work;
    {
        std::ifstream in(casesPath);
        std::string line;
        while (std::getline(in, line))
            if (!line.empty())
                work[json::parse(line).value("thread", 0)].push_back(line);
    }
    const unsigned seed = getenv("VERIF_SEED") ? static_cast<unsigned>(atoi(getenv("VERIF_SEED"))) : 1;
    for (int phase = 0; phase < 2; ++phase)
    {
        pid_t pid = fork();
        if (pid == 0)
        {
            std::set_terminate(terminateHandler);
            alarm(watchdogSeconds() * 5);
            if (phase == 0)
            {
                for (const auto& w : work)
                    runThreadWorkload(w.second, prefix + ".alone." + std::to_string(w.first), seed, false, 0);
            }
            else
            {
                std::vector<std::thread> threads;
                for (const auto& w : work)
                    threads.emplace_back(runThreadWorkload, std::cref(w.second), prefix + ".conc." + std::to_string(w.first),
                                         seed * 7919u + static_cast<unsigned>(w.first), true, static_cast<int>(work.size()));
                for (auto& t : threads)
                    t.join();
            }
            _exit(0);
        }
        int status = 0;
        waitpid(pid, &status, 0);
        if (!(WIFEXITED(status) && WEXITSTATUS(status) == 0))
        {
            // the process died (sanitizer report, signal, watchdog): every log of this phase without its end marker gets a crash event
            const std::string why = WIFSIGNALED(status) ? std::string("signal ") + std::to_string(WTERMSIG(status))
                                                        : std::string("exit ") + std::to_string(WEXITSTATUS(status));
            for (const auto& w : work)
            {
                const std::string p = prefix + (phase == 0 ? ".alone." : ".conc.") + std::to_string(w.first);
                FILE* f = fopen(p.c_str(), "a");
                if (f)
                {
                    fprintf(f, "\n{\"e\":\"crash\",\"id\":\"thread-%d\",\"why\":\"%s\"}\n", w.first, why.c_str());
                    fclose(f);
                }
            }
        }
    }
    fprintf(stderr, "exec: %zu threads\n", work.size());
    return 0;
}

int main(int argc, char** argv)
{
    if (argc == 4 && std::string(argv[1]) == "--threads")
        return threadedMain(argv[2], argv[3]);
    if (argc < 3)
    {
        fprintf(stderr, "usage: exec <cases.ndjson> <trace.ndjson> [--nofork]\n");
        return 2;
    }
    bool nofork = argc > 3 && std::string(argv[3]) == "--nofork";
    std::vector<std::string> lines;
    {
        std::ifstream in(argv[1]);
        if (!in)
        {
            fprintf(stderr, "cannot open %s\n", argv[1]);
            return 2;
        }
        std::string line;
        while (std::getline(in, line))
            if (!line.empty())
                lines.push_back(line);
    }
    out = fopen(argv[2], "w");
    if (!out)
    {
        fprintf(stderr, "cannot open %s\n", argv[2]);
        return 2;
    }
    if (nofork)
    {
        runEpisodes(lines, 0);
        fclose(out);
        return 0;
    }
    shared = static_cast<Shared*>(mmap(nullptr, sizeof(Shared), PROT_READ | PROT_WRITE, MAP_SHARED | MAP_ANONYMOUS, -1, 0));
    shared->episode = 0;
    shared->opIndex = -1;
    shared->done = 0;
    long from = 0;
    long crashes = 0;
    long timeouts = 0;
    while (from < static_cast<long>(lines.size()))
    {
        fflush(out);
        pid_t pid = fork();
        if (pid == 0)
        {
            runEpisodes(lines, from);
            fclose(out);
            _exit(0);
        }
        int status = 0;
        waitpid(pid, &status, 0);
        if (shared->done)
            break;
        // worker died in episode shared->episode
        fseek(out, 0, SEEK_END);
        std::string why;
        if (WIFSIGNALED(status))
            why = WTERMSIG(status) == SIGALRM ? "timeout" : std::string("signal ") + std::to_string(WTERMSIG(status));
        else
            why = std::string("exit ") + std::to_string(WEXITSTATUS(status));
        json c = json::parse(lines[shared->episode]);
        Out o;
        o.obj().kv("e", "crash").kv("id", c.value("id", std::to_string(shared->episode))).kv("op", shared->opIndex).kv("why", why);
        if (c.contains("ops") && shared->opIndex >= 0 && shared->opIndex < static_cast<long>(c["ops"].size()))
            o.raw("during", c["ops"][shared->opIndex].dump());
        o.end();
        // the worker may have died in the middle of a line
        fputc('\n', out);
        emitLine(o.str());
        ++crashes;
        if (why == "timeout")
            ++timeouts;
        from = shared->episode + 1;
        // a tree that crashes on a whole class of inputs would fork once per episode: enough is enough
        const char* cap = getenv("VERIF_MAX_CRASHES");
        if (crashes >= (cap ? atol(cap) : 100) || timeouts >= 3)      // a tree that hangs costs a watchdog period per episode
        {
            fprintf(stderr, "exec: stopped after %ld crashes; %zu episodes not executed\n", crashes, lines.size() - static_cast<size_t>(from));
            break;
        }
    }
    fclose(out);
    fprintf(stderr, "exec: %zu episodes, %ld crashes\n", lines.size(), crashes);
    return 0;
}
