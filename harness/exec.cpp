// Executor: runs operation sequences ("cases", ndjson, one episode per line) on the real
// library objects and logs one ndjson event per public call: arguments and everything
// observable afterwards.  It contains no oracle: TLC judges the log against the TLA+
// specification (spec/Trace*.tla).
//
//   exec <cases.ndjson> <trace.ndjson> [--nofork]
//
// Episodes run in a forked worker that flushes after every event; when the worker dies
// (signal, sanitizer abort, std::terminate, watchdog) the parent appends a "crash" event
// for the episode in progress and resumes with the next one.
#include <sys/mman.h>
#include <sys/wait.h>
#include <unistd.h>
#include <csignal>
#include <cstdio>
#include <cstdlib>
#include <cstring>
#include <fstream>
#include <iostream>
#include <string>
#include <vector>

#include <nlohmann/json.hpp>

#include "ops.h"

using nlohmann::json;

struct Shared
{
    volatile long episode;   // index of the episode in progress
    volatile long opIndex;   // index of the op in progress inside it
    volatile long done;      // worker finished all episodes
};

static Shared* shared = nullptr;
static FILE* out = nullptr;

void emitLine(const std::string& s)
{
    fwrite(s.data(), 1, s.size(), out);
    fputc('\n', out);
    fflush(out);
}

void noteOp(long k)
{
    if (shared)
        shared->opIndex = k;
}

static void terminateHandler()
{
    // an uncaught exception is a crash of the call in progress
    _exit(86);
}

static int watchdogSeconds()
{
    const char* e = getenv("VERIF_WATCHDOG");
    return e ? atoi(e) : 60;
}

static void runEpisodes(const std::vector<std::string>& lines, long from)
{
    std::set_terminate(terminateHandler);
    for (long i = from; i < static_cast<long>(lines.size()); ++i)
    {
        if (shared)
        {
            shared->episode = i;
            shared->opIndex = -1;
        }
        alarm(watchdogSeconds());
        json c = json::parse(lines[i]);
        Out o;
        o.obj().kv("e", "begin").kv("id", c.value("id", std::to_string(i))).kv("comp", c.value("comp", "")).end();
        emitLine(o.str());
        runEpisode(c);
        alarm(0);
    }
    if (shared)
        shared->done = 1;
}

int main(int argc, char** argv)
{
    if (argc < 3)
    {
        fprintf(stderr, "usage: exec <cases.ndjson> <trace.ndjson> [--nofork]\n");
        return 2;
    }
    bool nofork = argc > 3 && std::string(argv[3]) == "--nofork";
    std::vector<std::string> lines;
    {
        std::ifstream in(argv[1]);
        if (!in)
        {
            fprintf(stderr, "cannot open %s\n", argv[1]);
            return 2;
        }
        std::string line;
        while (std::getline(in, line))
            if (!line.empty())
                lines.push_back(line);
    }
    out = fopen(argv[2], "w");
    if (!out)
    {
        fprintf(stderr, "cannot open %s\n", argv[2]);
        return 2;
    }
    if (nofork)
    {
        runEpisodes(lines, 0);
        fclose(out);
        return 0;
    }
    shared = static_cast<Shared*>(mmap(nullptr, sizeof(Shared), PROT_READ | PROT_WRITE, MAP_SHARED | MAP_ANONYMOUS, -1, 0));
    shared->episode = 0;
    shared->opIndex = -1;
    shared->done = 0;
    long from = 0;
    long crashes = 0;
    while (from < static_cast<long>(lines.size()))
    {
        fflush(out);
        pid_t pid = fork();
        if (pid == 0)
        {
            runEpisodes(lines, from);
            fclose(out);
            _exit(0);
        }
        int status = 0;
        waitpid(pid, &status, 0);
        if (shared->done)
            break;
        // worker died in episode shared->episode
        fseek(out, 0, SEEK_END);
        std::string why;
        if (WIFSIGNALED(status))
            why = WTERMSIG(status) == SIGALRM ? "timeout" : std::string("signal ") + std::to_string(WTERMSIG(status));
        else
            why = std::string("exit ") + std::to_string(WEXITSTATUS(status));
        json c = json::parse(lines[shared->episode]);
        Out o;
        o.obj().kv("e", "crash").kv("id", c.value("id", std::to_string(shared->episode))).kv("op", shared->opIndex).kv("why", why);
        if (c.contains("ops") && shared->opIndex >= 0 && shared->opIndex < static_cast<long>(c["ops"].size()))
            o.raw("during", c["ops"][shared->opIndex].dump());
        o.end();
        // the worker may have died in the middle of a line
        fputc('\n', out);
        emitLine(o.str());
        ++crashes;
        from = shared->episode + 1;
    }
    fclose(out);
    fprintf(stderr, "exec: %zu episodes, %ld crashes\n", lines.size(), crashes);
    return 0;
}
