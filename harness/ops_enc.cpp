// Encoder component: init / setDev / setStream / restart / encode.
#include <list>

#include "common.h"

using nlohmann::json;
using namespace ASAM::CMP;

namespace
{
std::vector<std::vector<uint8_t>> encodeWith(Encoder& enc, std::vector<Packet>& batch, const DataContext& ctx, int overload)
{
    // the three public overloads: value iterators, shared_ptr iterators, single packet
    if (overload == 2 && batch.size() == 1)
        return enc.encode(batch[0], ctx);
    if (overload == 1)
    {
        std::list<std::shared_ptr<Packet>> ptrs;
        for (auto& p : batch)
            ptrs.push_back(std::make_shared<Packet>(p));
        return enc.encode(ptrs.begin(), ptrs.end(), ctx);
    }
    return enc.encode(batch.begin(), batch.end(), ctx);
}

void logState(Out& o, const Encoder& enc)
{
    o.kv("dev", enc.getDeviceId()).kv("stream", enc.getStreamId()).kv("seq", enc.getSequenceCounter());
}
}

void runEnc(const json& ep)
{
    Encoder enc;
    long k = 0;
    for (const auto& op : ep.at("ops"))
    {
        noteOp(k++);
        const std::string name = op.at("op");
        Out o;
        if (name == "init")
        {
            enc = Encoder();
            enc.setDeviceId(static_cast<uint16_t>(op.at("dev").get<int>()));
            enc.setStreamId(static_cast<uint8_t>(op.at("stream").get<int>()));
            // warm-up through the public API only: one-frame calls until the counter has the wanted value
            const int target = op.value("seq", 0);
            if (target != 0)
            {
                const uint8_t one = 0xA5;
                Packet w;
                w.setPayload(Payload(PayloadType(CmpHeader::MessageType::data, 0xFF), &one, 1));
                for (long guard = 0; enc.getSequenceCounter() != target && guard < 70000; ++guard)
                    enc.encode(w, {0, 64});
            }
            o.obj().kv("e", "enc.init");
            logState(o, enc);
            o.end();
        }
        else if (name == "setDev" || name == "setStream" || name == "restart")
        {
            const int v = op.value("v", 0);
            if (name == "setDev")
                enc.setDeviceId(static_cast<uint16_t>(v));
            else if (name == "setStream")
                enc.setStreamId(static_cast<uint8_t>(v));
            else
                enc.restart();
            o.obj().kv("e", "enc." + name).kv("v", v);
            logState(o, enc);
            o.end();
        }
        else if (name == "recopy")
        {
            // the encoder is copied in the middle of its life and the copy is used from here on (copy construction
            // and copy assignment): a copy is the same encoder
            Encoder copy(enc);
            Encoder other;
            other = copy;
            enc = other;
            o.obj().kv("e", "enc.recopy");
            logState(o, enc);
            o.end();
        }
        else if (name == "encode")
        {
            std::vector<Packet> batch;
            for (const auto& p : op.at("batch"))
                batch.push_back(makePacket(p));
            DataContext ctx{op.at("ctx").at("min").get<size_t>(), op.at("ctx").at("max").get<size_t>()};
            const int overload = op.value("ov", 0);
            auto frames = encodeWith(enc, batch, ctx, overload);
            o.obj().kv("e", "enc.encode").kv("ov", overload);
            o.arr("batch");
            for (const auto& p : op.at("batch"))
                logBatchPacket(o, p);
            o.endArr();
            o.obj("ctx").kv("min", ctx.minBytesPerMessage).kv("max", ctx.maxBytesPerMessage).end();
            logFrames(o, "frames", frames, ctx.maxBytesPerMessage);
            logState(o, enc);
            if (op.value("fresh", true))
            {
                // the same batch on a fresh encoder with the same ids (C10)
                Encoder fresh;
                fresh.setDeviceId(enc.getDeviceId());
                fresh.setStreamId(enc.getStreamId());
                auto ff = encodeWith(fresh, batch, ctx, overload);
                logFrames(o, "fresh", ff, ctx.maxBytesPerMessage);
            }
            if (op.value("decode", true))
            {
                // the frames, in order, through a fresh decoder (C01)
                Decoder dec;
                o.arr("decoded");
                for (const auto& f : frames)
                    for (const auto& pkt : dec.decode(f.data(), f.size()))
                        snapPacket(o, *pkt);
                o.endArr();
            }
            o.end();
        }
        else
        {
            o.obj().kv("e", "unknown-op").kv("op", name).end();
        }
        emitLine(o.str());
    }
}
