// Recorder for the repository's own test suite (no oracle here, TLC judges the log).
//
// The 294 gtest cases call the library like any user.  This file is linked into the test binary together with
// the library and `-Wl,--wrap=<symbol>` for the public entry points of the stateful components: every call the
// *tests* make to Encoder / Decoder / Status / TECMP::Decoder goes through a wrapper below, which forwards to the
// real function and logs one event in the vocabulary of harness/exec (enc.* / dec.* / st.*), so that the ordinary
// trace specifications (TraceEnc, TraceDec, TraceStatus) judge what the suite's own scenarios really produced -
// all properties at every call, not only what the tests assert.  Calls the library makes internally are not
// wrapped (the linker only redirects undefined references), calls made from inside a wrapper are forwarded
// unlogged (re-entrancy flag).
//
// One episode per (test, object): objects are recognised by address; if the observable state of an object at
// the start of a call is not the state logged at the end of the previous call on that address (a new object at
// the same address, an assignment, a mutation through an entry point that is not wrapped), a new episode starts
// from the observed state.  The encoder's template overloads are instantiated in the tests' translation units and
// consist of init / putPacket... / getEncodedData: the three are wrapped and logged as one enc.encode event.
#ifndef SUITE_EXAMPLE
#include <gtest/gtest.h>
#endif

#include <cstdio>
#include <cstdlib>
#include <map>
#include <string>

#include "common.h"

using namespace ASAM::CMP;
using nlohmann::json;
using Frames = std::vector<std::vector<uint8_t>>;
using Packets = std::vector<std::shared_ptr<Packet>>;

// ---- the real functions (Itanium ABI: `this` is the first argument, a class result is returned through a hidden
// pointer in both the member and the free-function form, so these declarations are call compatible)
#define REAL(ret, name, mangled, ...) ret name(__VA_ARGS__) asm("__real_" mangled)
#define WRAP(ret, name, mangled, ...) ret name(__VA_ARGS__) asm("__wrap_" mangled)

#define M_ENC_INIT "_ZN4ASAM3CMP7Encoder4initERKNS0_11DataContextE"
#define M_ENC_PUT "_ZN4ASAM3CMP7Encoder9putPacketERKNS0_6PacketE"
#define M_ENC_GET "_ZN4ASAM3CMP7Encoder14getEncodedDataEv"
#define M_ENC_ONE "_ZN4ASAM3CMP7Encoder6encodeERKNS0_6PacketERKNS0_11DataContextE"
#define M_ENC_SETDEV "_ZN4ASAM3CMP7Encoder11setDeviceIdEt"
#define M_ENC_SETST "_ZN4ASAM3CMP7Encoder11setStreamIdEh"
#define M_ENC_RESTART "_ZN4ASAM3CMP7Encoder7restartEv"
#define M_DEC_DECODE "_ZN4ASAM3CMP7Decoder6decodeEPKvm"
#define M_TECMP_DECODE "_ZN5TECMP7Decoder6DecodeEPKvm"
#define M_ST_UPDATE "_ZN4ASAM3CMP6Status6updateERKNS0_6PacketE"
#define M_ST_REMOVE "_ZN4ASAM3CMP6Status16removeDeviceByIdEt"
#define M_ST_CLEAR "_ZN4ASAM3CMP6Status5clearEv"

REAL(void, realEncInit, M_ENC_INIT, Encoder*, const DataContext&);
REAL(void, realEncPut, M_ENC_PUT, Encoder*, const Packet&);
REAL(Frames, realEncGet, M_ENC_GET, Encoder*);
REAL(Frames, realEncOne, M_ENC_ONE, Encoder*, const Packet&, const DataContext&);
REAL(void, realEncSetDev, M_ENC_SETDEV, Encoder*, uint16_t);
REAL(void, realEncSetSt, M_ENC_SETST, Encoder*, uint8_t);
REAL(void, realEncRestart, M_ENC_RESTART, Encoder*);
REAL(Packets, realDecDecode, M_DEC_DECODE, Decoder*, const void*, size_t);
REAL(Packets, realTecmpDecode, M_TECMP_DECODE, const void*, size_t);
REAL(void, realStUpdate, M_ST_UPDATE, Status*, const Packet&);
REAL(void, realStRemove, M_ST_REMOVE, Status*, uint16_t);
REAL(void, realStClear, M_ST_CLEAR, Status*);

WRAP(void, wrapEncInit, M_ENC_INIT, Encoder*, const DataContext&);
WRAP(void, wrapEncPut, M_ENC_PUT, Encoder*, const Packet&);
WRAP(Frames, wrapEncGet, M_ENC_GET, Encoder*);
WRAP(Frames, wrapEncOne, M_ENC_ONE, Encoder*, const Packet&, const DataContext&);
WRAP(void, wrapEncSetDev, M_ENC_SETDEV, Encoder*, uint16_t);
WRAP(void, wrapEncSetSt, M_ENC_SETST, Encoder*, uint8_t);
WRAP(void, wrapEncRestart, M_ENC_RESTART, Encoder*);
WRAP(Packets, wrapDecDecode, M_DEC_DECODE, Decoder*, const void*, size_t);
WRAP(Packets, wrapTecmpDecode, M_TECMP_DECODE, const void*, size_t);
WRAP(void, wrapStUpdate, M_ST_UPDATE, Status*, const Packet&);
WRAP(void, wrapStRemove, M_ST_REMOVE, Status*, uint16_t);
WRAP(void, wrapStClear, M_ST_CLEAR, Status*);

namespace
{
bool inside = false;   // a wrapper is running: nested calls are the recorder's own
struct Guard
{
    bool outer;
    Guard() : outer(!inside) { inside = true; }
    ~Guard()
    {
        if (outer)
            inside = false;
    }
};

// Packet::getMessageType / getPayloadType / getPayload dereference the payload pointer unconditionally
bool canSnap(const Packet& p)
{
    return p.isValid() || p.getPayloadLength() > 0;
}

struct Episode
{
    std::string id;
    std::vector<std::string> lines;
    std::string lastState;   // observable state after the last logged call
    bool dead{false};        // the object was taken over in a state the judge cannot adopt: not recorded further
};

struct Recorder
{
    std::string test{"(outside)"};
    std::map<std::string, std::map<const void*, Episode>> live;   // component -> object -> episode in progress
    std::map<std::string, std::vector<Episode>> done;
    std::map<std::string, int> serial;
    // encoder calls in progress (template overloads)
    struct Batch
    {
        DataContext ctx;
        std::vector<Packet> packets;
        bool open{false};
        bool bad{false};    // holds a packet without payload: its getters cannot be called, the call is not recorded
    };
    std::map<const Encoder*, Batch> batches;

    void finish(const std::string& comp, const void* obj)
    {
        auto& m = live[comp];
        auto it = m.find(obj);
        if (it == m.end())
            return;
        if (it->second.lines.size() > 1)
            done[comp].push_back(std::move(it->second));
        m.erase(it);
    }
    void finishAll()
    {
        for (auto& c : live)
        {
            for (auto& o : c.second)
                if (o.second.lines.size() > 1)
                    done[c.first].push_back(std::move(o.second));
            c.second.clear();
        }
        batches.clear();
    }
    Episode& start(const std::string& comp, const void* obj)
    {
        finish(comp, obj);
        Episode& e = live[comp][obj];
        e.id = "suite-" + test + "-" + comp + std::to_string(serial[comp]++);
        Out o;
        o.obj().kv("e", "begin").kv("id", e.id).kv("comp", comp).end();
        e.lines.push_back(o.str());
        return e;
    }
    Episode* find(const std::string& comp, const void* obj)
    {
        auto& m = live[comp];
        auto it = m.find(obj);
        return it == m.end() ? nullptr : &it->second;
    }
    void flush()
    {
        const char* prefix = getenv("VERIF_SUITE_TRACE");
        if (!prefix)
            return;
        finishAll();
        for (auto& c : done)
        {
            FILE* f = fopen((std::string(prefix) + "." + c.first + ".ndjson").c_str(), "a");
            if (!f)
                continue;
            for (auto& e : c.second)
                for (auto& l : e.lines)
                    fprintf(f, "%s\n", l.c_str());
            fclose(f);
            c.second.clear();
        }
    }
};

#ifdef SUITE_EXAMPLE
// the example program (example/main.cpp) instead of the test suite: one "test", flushed when the program exits
Recorder& rec();
void flushAtExit()
{
    rec().flush();
}
Recorder& rec()
{
    static Recorder r;
    static bool once = (r.test = "example.main", atexit(flushAtExit), true);   // after r: runs before r is destroyed
    (void)once;
    return r;
}
#else
Recorder& rec()
{
    static Recorder r;
    return r;
}

class Listener : public testing::EmptyTestEventListener
{
    void OnTestStart(const testing::TestInfo& info) override
    {
        rec().finishAll();
        rec().test = std::string(info.test_suite_name()) + "." + info.name();
    }
    void OnTestEnd(const testing::TestInfo&) override
    {
        rec().flush();
        rec().test = "(outside)";
    }
};

struct Install
{
    Install() { testing::UnitTest::GetInstance()->listeners().Append(new Listener); }
} install;
#endif

// ------------------------------------------------------------------ encoder
std::string encState(const Encoder& enc)
{
    Out o;
    o.obj().kv("dev", enc.getDeviceId()).kv("stream", enc.getStreamId()).kv("seq", enc.getSequenceCounter()).end();
    return o.str();
}

void encStateFields(Out& o, const Encoder& enc)
{
    o.kv("dev", enc.getDeviceId()).kv("stream", enc.getStreamId()).kv("seq", enc.getSequenceCounter());
}

Episode& encEpisode(Encoder* enc)
{
    const std::string now = encState(*enc);
    Episode* e = rec().find("enc", enc);
    if (!e || e->lastState != now)
    {
        e = &rec().start("enc", enc);
        Out o;
        o.obj().kv("e", "enc.init");
        encStateFields(o, *enc);
        o.end();
        e->lines.push_back(o.str());
        e->lastState = now;
    }
    return *e;
}

void batchPacket(Out& o, const Packet& p)
{
    o.obj();
    o.kv("mt", static_cast<int>(p.getMessageType())).kv("pt", p.getPayloadType());
    o.kv("ver", p.getVersion());
    o.be("ts", p.getTimestamp(), 8).be("ifid", p.getInterfaceId(), 4);
    o.kv("vid", p.getVendorId()).kv("fl", p.getCommonFlags());
    o.bytes("pl", p.getPayload().getRawPayload(), p.getPayload().getLength());
    o.end();
}

void logEncode(Encoder* enc, Episode& e, const std::vector<Packet>& batch, const DataContext& ctx, const Frames& frames, int ov)
{
    Out o;
    o.obj().kv("e", "enc.encode").kv("ov", ov);
    o.arr("batch");
    for (const auto& p : batch)
        batchPacket(o, p);
    o.endArr();
    o.obj("ctx").kv("min", ctx.minBytesPerMessage).kv("max", ctx.maxBytesPerMessage).end();
    logFrames(o, "frames", frames, ctx.maxBytesPerMessage);
    encStateFields(o, *enc);
    {
        // the same batch on a fresh encoder with the same ids (C10), and the frames through a fresh decoder (C01)
        Encoder fresh;
        fresh.setDeviceId(enc->getDeviceId());
        fresh.setStreamId(enc->getStreamId());
        logFrames(o, "fresh", fresh.encode(batch.begin(), batch.end(), ctx), ctx.maxBytesPerMessage);
        Decoder dec;
        o.arr("decoded");
        for (const auto& f : frames)
            for (const auto& pkt : dec.decode(f.data(), f.size()))
                snapPacket(o, *pkt);
        o.endArr();
    }
    o.end();
    e.lines.push_back(o.str());
    e.lastState = encState(*enc);
}

// ------------------------------------------------------------------ decoder
std::string decState(const Decoder& dec)
{
    Out o;
    o.obj();
    logPending(o, "pend", dec);
    o.end();
    return o.str();
}

std::string snapAll(const Packets& pkts)
{
    Out o;
    o.arr();
    for (const auto& p : pkts)
    {
        if (!p)
            o.obj().kv("null", true).end();
        else
            snapPacket(o, *p);
    }
    o.endArr();
    return o.str();
}

// ------------------------------------------------------------------ status
json probeFor(const Status& st, int dev, uint32_t ifid)
{
    json devs = json::array({dev, 0, 1, 2, 3, 65535});
    json ifs = json::array();
    auto be4 = [](uint32_t v) { return json::array({(v >> 24) & 255, (v >> 16) & 255, (v >> 8) & 255, v & 255}); };
    ifs.push_back(be4(ifid));
    for (uint32_t i : {0u, 1u, 2u, 3u})
        ifs.push_back(be4(i));
    for (size_t k = 0; k < st.getDeviceStatusCount(); ++k)
    {
        devs.push_back(st.getDeviceStatus(k).getPacket().getDeviceId());
        for (size_t j = 0; j < st.getDeviceStatus(k).getInterfaceStatusCount(); ++j)
            ifs.push_back(be4(st.getDeviceStatus(k).getInterfaceStatus(j).getInterfaceId()));
    }
    return json{{"devs", devs}, {"ifs", ifs}};
}

std::string stState(const Status& st)
{
    Out o;
    o.obj();
    snapStatus(o, st, json::object());
    o.end();
    return o.str();
}

Episode& stEpisode(Status* st)
{
    const std::string now = stState(*st);
    Episode* e = rec().find("st", st);
    if (!e || e->lastState != now)
    {
        e = &rec().start("st", st);
        Out o;
        o.obj().kv("e", "st.adopt");       // the judge takes the observed entries as the starting state
        snapStatus(o, *st, probeFor(*st, 0, 0));
        o.end();
        e->lines.push_back(o.str());
        e->lastState = now;
    }
    return *e;
}

void stAfter(Status* st, Episode& e, Out& o, int dev, uint32_t ifid)
{
    snapStatus(o, *st, probeFor(*st, dev, ifid));
    o.end();
    e.lines.push_back(o.str());
    e.lastState = stState(*st);
}
}

// ====================================================================== the wrappers
void wrapEncInit(Encoder* self, const DataContext& ctx)
{
    if (inside)
        return realEncInit(self, ctx);
    Guard g;
    encEpisode(self);
    auto& b = rec().batches[self];
    b.ctx = ctx;
    b.packets.clear();
    b.open = true;
    b.bad = false;
    realEncInit(self, ctx);
}

void wrapEncPut(Encoder* self, const Packet& p)
{
    if (inside)
        return realEncPut(self, p);
    Guard g;
    auto& b = rec().batches[self];
    if (b.open && canSnap(p))
        b.packets.push_back(p);
    else
        b.bad = true;
    realEncPut(self, p);
}

Frames wrapEncGet(Encoder* self)
{
    if (inside)
        return realEncGet(self);
    Guard g;
    Frames frames = realEncGet(self);
    auto& b = rec().batches[self];
    Episode* e = rec().find("enc", self);
    if (b.open && e && !b.bad)
        logEncode(self, *e, b.packets, b.ctx, frames, 0);
    else if (e)
        e->lastState.clear();          // the next call starts a new episode from what it observes
    b.open = false;
    return frames;
}

Frames wrapEncOne(Encoder* self, const Packet& p, const DataContext& ctx)
{
    if (inside)
        return realEncOne(self, p, ctx);
    Guard g;
    Episode& e = encEpisode(self);
    if (!canSnap(p))
    {
        e.lastState.clear();
        return realEncOne(self, p, ctx);
    }
    const std::vector<Packet> batch{p};
    Frames frames = realEncOne(self, p, ctx);
    logEncode(self, e, batch, ctx, frames, 2);
    return frames;
}

static void encSet(Encoder* self, const char* name, int v, int which)
{
    Episode& e = encEpisode(self);
    if (which == 0)
        realEncSetDev(self, static_cast<uint16_t>(v));
    else if (which == 1)
        realEncSetSt(self, static_cast<uint8_t>(v));
    else
        realEncRestart(self);
    Out o;
    o.obj().kv("e", name).kv("v", v);
    encStateFields(o, *self);
    o.end();
    e.lines.push_back(o.str());
    e.lastState = encState(*self);
}

void wrapEncSetDev(Encoder* self, uint16_t v)
{
    if (inside)
        return realEncSetDev(self, v);
    Guard g;
    encSet(self, "enc.setDev", v, 0);
}

void wrapEncSetSt(Encoder* self, uint8_t v)
{
    if (inside)
        return realEncSetSt(self, v);
    Guard g;
    encSet(self, "enc.setStream", v, 1);
}

void wrapEncRestart(Encoder* self)
{
    if (inside)
        return realEncRestart(self);
    Guard g;
    encSet(self, "enc.restart", 0, 2);
}

Packets wrapDecDecode(Decoder* self, const void* data, size_t size)
{
    if (inside)
        return realDecDecode(self, data, size);
    Guard g;
    const std::string now = decState(*self);
    Episode* e = rec().find("dec", self);
    if (!e || e->lastState != now)
    {
        e = &rec().start("dec", self);
        // a decoder met for the first time must be idle; one taken over with messages in progress is not recorded
        // (the judge's ghost state - which runs of segments are clean - cannot be reconstructed from the table)
        e->dead = !self->verifPending().empty();
        Out o;
        o.obj().kv("e", e->dead ? "dec.note" : "dec.new");
        if (e->dead)
            o.kv("what", "adopted with messages in progress: not recorded");
        else
            logPending(o, "pend", *self);
        o.end();
        e->lines.push_back(o.str());
    }
    Packets out = realDecDecode(self, data, size);
    if (!e->dead)
    {
        Out o;
        o.obj().kv("e", "dec.decode");
        if (!data)
            o.kv("null", true);
        o.bytes("in", static_cast<const uint8_t*>(data), data ? size : 0);
        o.raw("out", snapAll(out));
        logPending(o, "pend", *self);
        o.end();
        e->lines.push_back(o.str());
    }
    e->lastState = decState(*self);
    return out;
}

Packets wrapTecmpDecode(const void* data, size_t size)
{
    if (inside)
        return realTecmpDecode(data, size);
    Guard g;
    static int dummy;
    Episode* e = rec().find("dec", &dummy);
    if (!e)
    {
        e = &rec().start("dec", &dummy);
        Out o;
        o.obj().kv("e", "dec.new").end();
        e->lines.push_back(o.str());
    }
    Packets out = realTecmpDecode(data, size);
    Out o;
    o.obj().kv("e", "dec.tdecode").bytes("in", static_cast<const uint8_t*>(data), data ? size : 0).raw("out", snapAll(out)).end();
    e->lines.push_back(o.str());
    return out;
}

void wrapStUpdate(Status* self, const Packet& p)
{
    if (inside)
        return realStUpdate(self, p);
    Guard g;
    Episode& e = stEpisode(self);
    if (!canSnap(p))
    {
        e.lastState.clear();
        return realStUpdate(self, p);
    }
    Out o;
    o.obj().kv("e", "st.update");
    o.key("pkt");
    snapPacket(o, p);
    const int dev = p.getDeviceId();
    const uint32_t ifid = p.getInterfaceId();
    realStUpdate(self, p);
    stAfter(self, e, o, dev, ifid);
}

void wrapStRemove(Status* self, uint16_t dev)
{
    if (inside)
        return realStRemove(self, dev);
    Guard g;
    Episode& e = stEpisode(self);
    Out o;
    o.obj().kv("e", "st.removeDev").kv("dev", dev);
    realStRemove(self, dev);
    stAfter(self, e, o, dev, 0);
}

void wrapStClear(Status* self)
{
    if (inside)
        return realStClear(self);
    Guard g;
    Episode& e = stEpisode(self);
    Out o;
    o.obj().kv("e", "st.clear");
    realStClear(self);
    stAfter(self, e, o, 0, 0);
}
