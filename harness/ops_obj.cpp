// Object component: header and payload objects, their setters / getters and raw bytes (C11, C12, C13).
// Every class is wrapped behind the same interface: raw bytes, load from raw bytes, and a table of accessors
// (name, width in bytes, getter, optional setter).  Values travel as big-endian byte arrays.
#include <functional>
#include <map>

#include <asam_cmp/tecmp_can_payload.h>
#include <asam_cmp/tecmp_capture_module_payload.h>
#include <asam_cmp/tecmp_header.h>
#include <asam_cmp/tecmp_interface_payload.h>
#include <asam_cmp/tecmp_lin_payload.h>

#include "common.h"

using nlohmann::json;
using namespace ASAM::CMP;

namespace
{
struct Acc
{
    std::string name;
    int nbytes;
    std::function<uint64_t()> get;
    std::function<void(uint64_t)> set;   // empty: no setter in the API
};

struct Obj
{
    virtual ~Obj() = default;
    virtual std::vector<uint8_t> raw() const = 0;
    virtual void load(const std::vector<uint8_t>& bytes) = 0;
    std::vector<Acc> acc;
};

uint32_t f2u(float f)
{
    uint32_t u;
    memcpy(&u, &f, 4);
    return u;
}
float u2f(uint64_t v)
{
    uint32_t u = static_cast<uint32_t>(v);
    float f;
    memcpy(&f, &u, 4);
    return f;
}

#define RW(NAME, N, GETEXPR, SETSTMT) \
    acc.push_back({NAME, N, [this]() -> uint64_t { return static_cast<uint64_t>(GETEXPR); }, [this](uint64_t v) { (void) v; SETSTMT; }})
#define RO(NAME, N, GETEXPR) acc.push_back({NAME, N, [this]() -> uint64_t { return static_cast<uint64_t>(GETEXPR); }, nullptr})

template <typename H>
struct PodObj : Obj
{
    H h;
    std::vector<uint8_t> raw() const override
    {
        std::vector<uint8_t> v(sizeof(H));
        memcpy(v.data(), &h, sizeof(H));
        return v;
    }
    void load(const std::vector<uint8_t>& bytes) override { memcpy(&h, bytes.data(), std::min(bytes.size(), sizeof(H))); }
};

struct CmpHeaderObj : PodObj<CmpHeader>
{
    CmpHeaderObj()
    {
        RW("version", 1, h.getVersion(), h.setVersion(static_cast<uint8_t>(v)));
        RW("deviceId", 2, h.getDeviceId(), h.setDeviceId(static_cast<uint16_t>(v)));
        RW("messageType", 1, h.getMessageType(), h.setMessageType(static_cast<CmpHeader::MessageType>(v)));
        RW("streamId", 1, h.getStreamId(), h.setStreamId(static_cast<uint8_t>(v)));
        RW("sequenceCounter", 2, h.getSequenceCounter(), h.setSequenceCounter(static_cast<uint16_t>(v)));
    }
};

struct MsgHeaderObj : PodObj<MessageHeader>
{
    using CF = MessageHeader::CommonFlags;
    void flag(const char* n, CF m)
    {
        acc.push_back({n, 1, [this, m]() -> uint64_t { return h.getCommonFlag(m); }, [this, m](uint64_t v) { h.setCommonFlag(m, v != 0); }});
    }
    MsgHeaderObj()
    {
        RW("timestamp", 8, h.getTimestamp(), h.setTimestamp(v));
        RW("interfaceId", 4, h.getInterfaceId(), h.setInterfaceId(static_cast<uint32_t>(v)));
        RW("vendorId", 2, h.getVendorId(), h.setVendorId(static_cast<uint16_t>(v)));
        RW("commonFlags", 1, h.getCommonFlags(), h.setCommonFlags(static_cast<uint8_t>(v)));
        RW("segmentType", 1, static_cast<uint8_t>(h.getSegmentType()) >> 2,
           h.setSegmentType(static_cast<MessageHeader::SegmentType>(static_cast<uint8_t>(v) << 2)));
        RW("payloadType", 1, h.getPayloadType(), h.setPayloadType(static_cast<uint8_t>(v)));
        RW("payloadLength", 2, h.getPayloadLength(), h.setPayloadLength(static_cast<uint16_t>(v)));
        flag("recalc", CF::recalc);
        flag("insync", CF::insync);
        flag("diOnIf", CF::diOnIf);
        flag("overflow", CF::overflow);
        flag("errorInPayload", CF::errorInPayload);
        // the two segmentation bits through the flag accessors (two-bit mask): set = both, clear = neither, get = any
        RW("segMask", 1, h.getCommonFlag(CF::seg) ? ((h.getCommonFlags() >> 2) & 3) : 0, h.setCommonFlag(CF::seg, v != 0));
    }
};

struct TecmpHeaderObj : PodObj<TECMP::CmpHeader>
{
    TecmpHeaderObj()
    {
        RW("deviceId", 1, h.getDeviceId(), h.setDeviceId(static_cast<uint8_t>(v)));
        RW("sequenceCounter", 2, h.getSequenceCounter(), h.setSequenceCounter(static_cast<uint16_t>(v)));
        RW("version", 1, h.getVersion(), h.setVersion(static_cast<uint8_t>(v)));
        RW("messageType", 1, h.getMessageType(), h.setMessageType(static_cast<TECMP::CmpHeader::MessageType>(v)));
        RW("dataType", 2, h.getDataType(), h.setDataType(static_cast<TECMP::CmpHeader::DataType>(v)));
        RW("deviceFlags", 2, h.getDeviceFlags(), h.setDeviceFlags(static_cast<uint16_t>(v)));
        RW("interfaceId", 4, h.getInterfaceId(), h.setInterfaceId(static_cast<uint32_t>(v)));
        RW("timestamp", 8, h.getTimestamp(), h.setTimestamp(v));
        RW("payloadLength", 2, h.getPayloadLength(), h.setPayloadLength(static_cast<uint16_t>(v)));
    }
};

// the public nested Header classes of the payloads (used directly by callers that lay out buffers themselves)
struct CanHeaderObj : PodObj<CanPayloadBase::Header>
{
    using Fl = CanPayloadBase::Flags;
    void flag(const char* n, Fl m)
    {
        acc.push_back({n, 1, [this, m]() -> uint64_t { return h.getFlag(m); }, [this, m](uint64_t v) { h.setFlag(m, v != 0); }});
    }
    explicit CanHeaderObj(bool fd)
    {
        RW("flags", 2, h.getFlags(), h.setFlags(static_cast<uint16_t>(v)));
        RW("id", 4, h.getId(), h.setId(static_cast<uint32_t>(v)));
        RW("rsvd", 1, h.getRsvd(), h.setRsvd(v != 0));
        RW("ide", 1, h.getIde(), h.setIde(v != 0));
        RW("crcSupport", 1, h.getCrcSupport(), h.setCrcSupport(v != 0));
        RW("errorPosition", 2, h.getErrorPosition(), h.setErrorPosition(static_cast<uint16_t>(v)));
        RW("dlc", 1, h.getDlc(), h.setDlc(static_cast<uint8_t>(v)));
        RW("dataLength", 1, h.getDataLength(), h.setDataLength(static_cast<uint8_t>(v)));
        if (fd)
        {
            RW("rrs", 1, h.getRtrRrs(), h.setRtrRrs(v != 0));
            RW("crc", 3, h.getCrcSbc(), h.setCrcSbc(static_cast<uint32_t>(v)));
            RW("sbc", 1, h.getSbc(), h.setSbc(static_cast<uint8_t>(v)));
            RW("sbcParity", 1, h.getSbcParity(), h.setSbcParity(v != 0));
            RW("sbcSupport", 1, h.getSbcSupport(), h.setSbcSupport(v != 0));
        }
        else
        {
            RW("rtr", 1, h.getRtrRrs(), h.setRtrRrs(v != 0));
            RW("crc", 2, h.getCrc(), h.setCrc(static_cast<uint16_t>(v)));
        }
        flag("crcErr", Fl::crcErr);
        flag("ackErr", Fl::ackErr);
        flag("passiveAckErr", Fl::passiveAckErr);
        flag("activeAckErr", Fl::activeAckErr);
        flag("ackDelErr", Fl::ackDelErr);
        flag("formErr", Fl::formErr);
        flag("stuffErr", Fl::stuffErr);
        flag("crcDelErr", Fl::crcDelErr);
        flag("eofErr", Fl::eofErr);
        flag("bitErr", Fl::bitErr);
        flag("r0", Fl::r0);
        flag("srrDom", Fl::srrDom);
        flag("brs", Fl::brs);
        flag("esi", Fl::esi);
    }
};

struct LinHeaderObj : PodObj<LinPayload::Header>
{
    LinHeaderObj()
    {
        RW("flags", 2, h.getFlags(), h.setFlags(static_cast<uint16_t>(v)));
        RW("linId", 1, h.getLinId(), h.setLinId(static_cast<uint8_t>(v)));
        RW("parityBits", 1, h.getParityBits(), h.setParityBits(static_cast<uint8_t>(v)));
        RW("checksum", 1, h.getChecksum(), h.setChecksum(static_cast<uint8_t>(v)));
        RW("dataLength", 1, h.getDataLength(), h.setDataLength(static_cast<uint8_t>(v)));
        using Fl = LinPayload::Flags;
        const std::pair<const char*, Fl> fl[] = {{"checksumErr", Fl::checksumErr}, {"collisionErr", Fl::collisionErr}, {"parityErr", Fl::parityErr},
                                                 {"noSlaveRespErr", Fl::noSlaveRespErr}, {"syncErr", Fl::syncErr}, {"framingErr", Fl::framingErr},
                                                 {"shortDomErr", Fl::shortDomErr}, {"longDomErr", Fl::longDomErr}, {"wup", Fl::wup}};
        for (const auto& x : fl)
        {
            const Fl m = x.second;
            acc.push_back({x.first, 1, [this, m]() -> uint64_t { return h.getFlag(m); }, [this, m](uint64_t v) { h.setFlag(m, v != 0); }});
        }
    }
};

struct EthHeaderObj : PodObj<EthernetPayload::Header>
{
    EthHeaderObj()
    {
        RW("flags", 2, h.getFlags(), h.setFlags(static_cast<uint16_t>(v)));
        RW("dataLength", 2, h.getDataLength(), h.setDataLength(static_cast<uint16_t>(v)));
        using Fl = EthernetPayload::Flags;
        const std::pair<const char*, Fl> fl[] = {{"fcsErr", Fl::fcsErr}, {"frameShorterThan64b", Fl::frameShorterThan64b}, {"txPortDown", Fl::txPortDown},
                                                 {"collision", Fl::collision}, {"frameTooLongErr", Fl::frameTooLongErr}, {"phyErr", Fl::phyErr},
                                                 {"frameTruncated", Fl::frameTruncated}, {"fcsSupport", Fl::fcsSupport}};
        for (const auto& x : fl)
        {
            const Fl m = x.second;
            acc.push_back({x.first, 1, [this, m]() -> uint64_t { return h.getFlag(m); }, [this, m](uint64_t v) { h.setFlag(m, v != 0); }});
        }
    }
};

struct AnalogHeaderObj : PodObj<AnalogPayload::Header>
{
    AnalogHeaderObj()
    {
        RW("flags", 2, h.getFlags(), h.setFlags(static_cast<uint16_t>(v)));
        RW("sampleDt", 1, static_cast<uint16_t>(h.getSampleDt()) >> 8,
           h.setSampleDt(v == 0 ? AnalogPayload::SampleDt::aInt16 : AnalogPayload::SampleDt::aInt32));
        RW("unit", 1, h.getUnit(), h.setUnit(static_cast<AnalogPayload::Unit>(v)));
        RW("sampleInterval", 4, f2u(h.getSampleInterval()), h.setSampleInterval(u2f(v)));
        RW("sampleOffset", 4, f2u(h.getSampleOffset()), h.setSampleOffset(u2f(v)));
        RW("sampleScalar", 4, f2u(h.getSampleScalar()), h.setSampleScalar(u2f(v)));
    }
};

struct CmHeaderObj : PodObj<CaptureModulePayload::Header>
{
    CmHeaderObj()
    {
        RW("uptime", 8, h.getUptime(), h.setUptime(v));
        RW("gmIdentity", 8, h.getGmIdentity(), h.setGmIdentity(v));
        RW("gmClockQuality", 4, h.getGmClockQuality(), h.setGmClockQuality(static_cast<uint32_t>(v)));
        RW("currentUtcOffset", 2, h.getCurrentUtcOffset(), h.setCurrentUtcOffset(static_cast<uint16_t>(v)));
        RW("timeSource", 1, h.getTimeSource(), h.setTimeSource(static_cast<uint8_t>(v)));
        RW("domainNumber", 1, h.getDomainNumber(), h.setDomainNumber(static_cast<uint8_t>(v)));
        RW("gptpFlags", 1, h.getGptpFlags(), h.setGptpFlags(static_cast<uint8_t>(v)));
    }
};

struct IfHeaderObj : PodObj<InterfacePayload::Header>
{
    IfHeaderObj()
    {
        RW("interfaceId", 4, h.getInterfaceId(), h.setInterfaceId(static_cast<uint32_t>(v)));
        RW("msgTotalRx", 4, h.getMsgTotalRx(), h.setMsgTotalRx(static_cast<uint32_t>(v)));
        RW("msgTotalTx", 4, h.getMsgTotalTx(), h.setMsgTotalTx(static_cast<uint32_t>(v)));
        RW("msgDroppedRx", 4, h.getMsgDroppedRx(), h.setMsgDroppedRx(static_cast<uint32_t>(v)));
        RW("msgDroppedTx", 4, h.getMsgDroppedTx(), h.setMsgDroppedTx(static_cast<uint32_t>(v)));
        RW("errorsTotalRx", 4, h.getErrorsTotalRx(), h.setErrorsTotalRx(static_cast<uint32_t>(v)));
        RW("errorsTotalTx", 4, h.getErrorsTotalTx(), h.setErrorsTotalTx(static_cast<uint32_t>(v)));
        RW("interfaceType", 1, h.getInterfaceType(), h.setInterfaceType(static_cast<uint8_t>(v)));
        RW("interfaceStatus", 1, h.getInterfaceStatus(), h.setInterfaceStatus(static_cast<InterfacePayload::InterfaceStatus>(v)));
        RW("featureSupportBitmask", 4, h.getFeatureSupportBitmask(), h.setFeatureSupportBitmask(static_cast<uint32_t>(v)));
    }
};

// payload classes: constructed from raw bytes through their public (data, size) constructor
template <typename P>
struct PayloadObj : Obj
{
    std::unique_ptr<P> p{std::make_unique<P>()};
    std::vector<uint8_t> raw() const override { return std::vector<uint8_t>(p->getRawPayload(), p->getRawPayload() + p->getLength()); }
    void load(const std::vector<uint8_t>& bytes) override
    {
        auto fresh = std::make_unique<P>(bytes.data(), bytes.size());
        // the accessor lambdas capture this, not p: swapping the pointee is enough
        p = std::move(fresh);
    }
};

template <typename P>
struct CanBaseObj : PayloadObj<P>
{
    using PayloadObj<P>::acc;
    using Fl = CanPayloadBase::Flags;
    void flag(const char* n, Fl m)
    {
        acc.push_back({n, 1, [this, m]() -> uint64_t { return this->p->getFlag(m); }, [this, m](uint64_t v) { this->p->setFlag(m, v != 0); }});
    }
    CanBaseObj()
    {
        acc.push_back({"flags", 2, [this]() -> uint64_t { return this->p->getFlags(); }, [this](uint64_t v) { this->p->setFlags(static_cast<uint16_t>(v)); }});
        acc.push_back({"id", 4, [this]() -> uint64_t { return this->p->getId(); }, [this](uint64_t v) { this->p->setId(static_cast<uint32_t>(v)); }});
        acc.push_back({"rsvd", 1, [this]() -> uint64_t { return this->p->getRsvd(); }, [this](uint64_t v) { this->p->setRsvd(v != 0); }});
        acc.push_back({"ide", 1, [this]() -> uint64_t { return this->p->getIde(); }, [this](uint64_t v) { this->p->setIde(v != 0); }});
        acc.push_back({"crcSupport", 1, [this]() -> uint64_t { return this->p->getCrcSupport(); }, [this](uint64_t v) { this->p->setCrcSupport(v != 0); }});
        acc.push_back({"errorPosition", 2, [this]() -> uint64_t { return this->p->getErrorPosition(); }, [this](uint64_t v) { this->p->setErrorPosition(static_cast<uint16_t>(v)); }});
        acc.push_back({"dlc", 1, [this]() -> uint64_t { return this->p->getDlc(); }, nullptr});
        acc.push_back({"dataLength", 1, [this]() -> uint64_t { return this->p->getDataLength(); }, nullptr});
        flag("crcErr", Fl::crcErr);
        flag("ackErr", Fl::ackErr);
        flag("passiveAckErr", Fl::passiveAckErr);
        flag("activeAckErr", Fl::activeAckErr);
        flag("ackDelErr", Fl::ackDelErr);
        flag("formErr", Fl::formErr);
        flag("stuffErr", Fl::stuffErr);
        flag("crcDelErr", Fl::crcDelErr);
        flag("eofErr", Fl::eofErr);
        flag("bitErr", Fl::bitErr);
        flag("r0", Fl::r0);
        flag("srrDom", Fl::srrDom);
        flag("brs", Fl::brs);
        flag("esi", Fl::esi);
    }
};

struct CanObj : CanBaseObj<CanPayload>
{
    CanObj()
    {
        RW("rtr", 1, p->getRtr(), p->setRtr(v != 0));
        RW("crc", 2, p->getCrc(), p->setCrc(static_cast<uint16_t>(v)));
    }
};

struct CanFdObj : CanBaseObj<CanFdPayload>
{
    CanFdObj()
    {
        RW("rrs", 1, p->getRrs(), p->setRrs(v != 0));
        RW("crc", 3, p->getCrc(), p->setCrc(static_cast<uint32_t>(v)));
        RW("sbc", 1, p->getSbc(), p->setSbc(static_cast<uint8_t>(v)));
        RW("sbcParity", 1, p->getSbcParity(), p->setSbcParity(v != 0));
        RW("sbcSupport", 1, p->getSbcSupport(), p->setSbcSupport(v != 0));
    }
};

struct LinObj : PayloadObj<LinPayload>
{
    using Fl = LinPayload::Flags;
    void flag(const char* n, Fl m)
    {
        acc.push_back({n, 1, [this, m]() -> uint64_t { return p->getFlag(m); }, [this, m](uint64_t v) { p->setFlag(m, v != 0); }});
    }
    LinObj()
    {
        RW("flags", 2, p->getFlags(), p->setFlags(static_cast<uint16_t>(v)));
        RW("linId", 1, p->getLinId(), p->setLinId(static_cast<uint8_t>(v)));
        RW("parityBits", 1, p->getParityBits(), p->setParityBits(static_cast<uint8_t>(v)));
        RW("checksum", 1, p->getChecksum(), p->setChecksum(static_cast<uint8_t>(v)));
        RO("dataLength", 1, p->getDataLength());
        flag("checksumErr", Fl::checksumErr);
        flag("collisionErr", Fl::collisionErr);
        flag("parityErr", Fl::parityErr);
        flag("noSlaveRespErr", Fl::noSlaveRespErr);
        flag("syncErr", Fl::syncErr);
        flag("framingErr", Fl::framingErr);
        flag("shortDomErr", Fl::shortDomErr);
        flag("longDomErr", Fl::longDomErr);
        flag("wup", Fl::wup);
    }
};

struct EthObj : PayloadObj<EthernetPayload>
{
    using Fl = EthernetPayload::Flags;
    void flag(const char* n, Fl m)
    {
        acc.push_back({n, 1, [this, m]() -> uint64_t { return p->getFlag(m); }, [this, m](uint64_t v) { p->setFlag(m, v != 0); }});
    }
    EthObj()
    {
        RW("flags", 2, p->getFlags(), p->setFlags(static_cast<uint16_t>(v)));
        RO("dataLength", 2, p->getDataLength());
        flag("fcsErr", Fl::fcsErr);
        flag("frameShorterThan64b", Fl::frameShorterThan64b);
        flag("txPortDown", Fl::txPortDown);
        flag("collision", Fl::collision);
        flag("frameTooLongErr", Fl::frameTooLongErr);
        flag("phyErr", Fl::phyErr);
        flag("frameTruncated", Fl::frameTruncated);
        flag("fcsSupport", Fl::fcsSupport);
    }
};

struct AnalogObj : PayloadObj<AnalogPayload>
{
    AnalogObj()
    {
        RW("flags", 2, p->getFlags(), p->setFlags(static_cast<uint16_t>(v)));
        // SampleDt values are the enumerators of the API (aInt16 = 0x0000, aInt32 = 0x0100 in the class's own coding)
        RW("sampleDt", 1, static_cast<uint16_t>(p->getSampleDt()) >> 8,
           p->setSampleDt(v == 0 ? AnalogPayload::SampleDt::aInt16 : AnalogPayload::SampleDt::aInt32));
        RW("unit", 1, p->getUnit(), p->setUnit(static_cast<AnalogPayload::Unit>(v)));
        RW("sampleInterval", 4, f2u(p->getSampleInterval()), p->setSampleInterval(u2f(v)));
        RW("sampleOffset", 4, f2u(p->getSampleOffset()), p->setSampleOffset(u2f(v)));
        RW("sampleScalar", 4, f2u(p->getSampleScalar()), p->setSampleScalar(u2f(v)));
    }
};

struct CmObj : PayloadObj<CaptureModulePayload>
{
    CmObj()
    {
        RW("uptime", 8, p->getUptime(), p->setUptime(v));
        RW("gmIdentity", 8, p->getGmIdentity(), p->setGmIdentity(v));
        RW("gmClockQuality", 4, p->getGmClockQuality(), p->setGmClockQuality(static_cast<uint32_t>(v)));
        RW("currentUtcOffset", 2, p->getCurrentUtcOffset(), p->setCurrentUtcOffset(static_cast<uint16_t>(v)));
        RW("timeSource", 1, p->getTimeSource(), p->setTimeSource(static_cast<uint8_t>(v)));
        RW("domainNumber", 1, p->getDomainNumber(), p->setDomainNumber(static_cast<uint8_t>(v)));
        RW("gptpFlags", 1, p->getGptpFlags(), p->setGptpFlags(static_cast<uint8_t>(v)));
    }
};

struct IfObj : PayloadObj<InterfacePayload>
{
    IfObj()
    {
        RW("interfaceId", 4, p->getInterfaceId(), p->setInterfaceId(static_cast<uint32_t>(v)));
        RW("msgTotalRx", 4, p->getMsgTotalRx(), p->setMsgTotalRx(static_cast<uint32_t>(v)));
        RW("msgTotalTx", 4, p->getMsgTotalTx(), p->setMsgTotalTx(static_cast<uint32_t>(v)));
        RW("msgDroppedRx", 4, p->getMsgDroppedRx(), p->setMsgDroppedRx(static_cast<uint32_t>(v)));
        RW("msgDroppedTx", 4, p->getMsgDroppedTx(), p->setMsgDroppedTx(static_cast<uint32_t>(v)));
        RW("errorsTotalRx", 4, p->getErrorsTotalRx(), p->setErrorsTotalRx(static_cast<uint32_t>(v)));
        RW("errorsTotalTx", 4, p->getErrorsTotalTx(), p->setErrorsTotalTx(static_cast<uint32_t>(v)));
        RW("interfaceType", 1, p->getInterfaceType(), p->setInterfaceType(static_cast<uint8_t>(v)));
        RW("interfaceStatus", 1, p->getInterfaceStatus(), p->setInterfaceStatus(static_cast<InterfacePayload::InterfaceStatus>(v)));
        RW("featureSupportBitmask", 4, p->getFeatureSupportBitmask(), p->setFeatureSupportBitmask(static_cast<uint32_t>(v)));
    }
};

struct TecmpCanObj : PayloadObj<TECMP::CanPayload>
{
    TecmpCanObj()
    {
        RW("arbId", 4, p->getArbId(), p->setArbId(static_cast<uint32_t>(v)));
        RW("dlc", 1, p->getDlc(), p->setDlc(static_cast<uint8_t>(v)));
    }
};

struct TecmpLinObj : PayloadObj<TECMP::LinPayload>
{
    TecmpLinObj()
    {
        RW("pid", 1, p->getPid(), p->setPid(static_cast<uint8_t>(v)));
        RW("dataLength", 1, p->getDataLength(), p->setDataLength(static_cast<uint8_t>(v)));
    }
};

struct TecmpIfObj : PayloadObj<TECMP::InterfacePayload>
{
    TecmpIfObj()
    {
        RW("vendorId", 1, p->getVendorId(), p->setVendorId(static_cast<uint8_t>(v)));
        RW("cmVersion", 1, p->getCmVersion(), p->setCmVersion(static_cast<uint8_t>(v)));
        RW("cmType", 1, p->getCmType(), p->setCmType(static_cast<uint8_t>(v)));
        RW("vendorDataLength", 2, p->getVendorDataLength(), p->setVendorDataLength(static_cast<uint16_t>(v)));
        RW("deviceId", 2, p->getDeviceId(), p->setDeviceId(static_cast<uint16_t>(v)));
        RW("serialNumber", 4, p->getSerialNumber(), p->setSerialNumber(static_cast<uint32_t>(v)));
        RW("interfaceId", 4, p->getInterfaceId(), p->setInterfaceId(static_cast<uint32_t>(v)));
        RW("messagesTotal", 4, p->getMessagesTotal(), p->setMessagesTotal(static_cast<uint32_t>(v)));
        RW("errorsTotal", 4, p->getErrorsTotal(), p->setErrorsTotal(static_cast<uint32_t>(v)));
        RW("linkStatus", 1, p->getVendorDataLinkStatus(), p->setVendorDataLinkStatus(static_cast<uint8_t>(v)));
        RW("linkQuality", 1, p->getVendorDataLinkQuality(), p->setVendorDataLinkQuality(static_cast<uint8_t>(v)));
        RW("linkupTime", 2, p->getVendorDataLinkupTime(), p->setVendorDataLinkupTime(static_cast<uint16_t>(v)));
    }
};

struct TecmpCmObj : PayloadObj<TECMP::CaptureModulePayload>
{
    TecmpCmObj()
    {
        RW("vendorId", 1, p->getVendorId(), p->setVendorId(static_cast<uint8_t>(v)));
        RW("deviceVersion", 1, p->getDeviceVersion(), p->setDeviceVersion(static_cast<uint8_t>(v)));
        RW("deviceType", 1, p->getDeviceType(), p->setDeviceType(static_cast<uint8_t>(v)));
        RW("vendorDataLength", 2, p->getVendorDataLength(), p->setVendorDataLength(static_cast<uint16_t>(v)));
        RW("deviceId", 2, p->getDeviceId(), p->setDeviceId(static_cast<uint16_t>(v)));
        RW("serialNumber", 4, p->getSerialNumber(), p->setSerialNumber(static_cast<uint32_t>(v)));
        RW("swVersionMajor", 1, p->getSwVersionMajor(), p->setSwVersionMajor(static_cast<uint8_t>(v)));
        RW("swVersionMinor", 1, p->getSwVersionMinor(), p->setSwVersionMinor(static_cast<uint8_t>(v)));
        RW("swVersionPatch", 1, p->getSwVersionPatch(), p->setSwVersionPatch(static_cast<uint8_t>(v)));
        RW("hwVersionMajor", 1, p->getHwVersionMajor(), p->setHwVersionMajor(static_cast<uint8_t>(v)));
        RW("hwVersionMinor", 1, p->getHwVersionMinor(), p->setHwVersionMinor(static_cast<uint8_t>(v)));
        RW("bufferFill", 1, p->getBufferFill(), p->setBufferFill(static_cast<uint8_t>(v)));
        RW("isBufferOverflow", 1, p->getIsBufferOverflow(), p->setIsBufferOverflow(static_cast<uint8_t>(v)));
        RW("bufferSize", 4, p->getBufferSize(), p->setBufferSize(static_cast<uint32_t>(v)));
        RW("lifecycle", 8, p->getLifecycle(), p->setLifecycle(v));
        RW("voltageWhole", 1, p->getVoltageWhole(), p->setVoltageWhole(static_cast<uint8_t>(v)));
        RW("voltageFraction", 1, p->getVoltageFraction(), p->setVoltageFraction(static_cast<uint8_t>(v)));
        RW("chassisTemp", 1, p->getChassisTemp(), p->setChassisTemp(static_cast<uint8_t>(v)));
        RW("silliconTemp", 1, p->getSilliconTemp(), p->setSilliconTemp(static_cast<uint8_t>(v)));
    }
};

struct PayloadTypeObj : Obj
{
    PayloadType t{0};
    std::vector<uint8_t> raw() const override
    {
        const uint32_t v = t.getType();
        return {static_cast<uint8_t>(v >> 24), static_cast<uint8_t>(v >> 16), static_cast<uint8_t>(v >> 8), static_cast<uint8_t>(v)};
    }
    void load(const std::vector<uint8_t>& b) override
    {
        t = PayloadType((static_cast<uint32_t>(b[0]) << 24) | (b[1] << 16) | (b[2] << 8) | b[3]);
    }
    PayloadTypeObj()
    {
        RW("type", 4, t.getType(), t.setType(static_cast<uint32_t>(v)));
        RW("messageType", 1, t.getMessageType(), t.setMessageType(static_cast<CmpHeader::MessageType>(v)));
        RW("rawPayloadType", 1, t.getRawPayloadType(), t.setRawPayloadType(static_cast<uint8_t>(v)));
    }
};

// A generic Payload: the 32 bit type word through its three setters, in front of the data bytes (which they must not touch)
struct GenericPayloadObj : Obj
{
    std::unique_ptr<Payload> p{std::make_unique<Payload>(PayloadType(0), nullptr, 0)};
    std::vector<uint8_t> raw() const override
    {
        const uint32_t v = p->getType().getType();
        std::vector<uint8_t> out{static_cast<uint8_t>(v >> 24), static_cast<uint8_t>(v >> 16), static_cast<uint8_t>(v >> 8), static_cast<uint8_t>(v)};
        out.insert(out.end(), p->getRawPayload(), p->getRawPayload() + p->getLength());
        return out;
    }
    void load(const std::vector<uint8_t>& b) override
    {
        const uint32_t t = (static_cast<uint32_t>(b[0]) << 24) | (b[1] << 16) | (b[2] << 8) | b[3];
        // type 0 means "invalid" and drops the data: keep the type non-zero for the background
        p = std::make_unique<Payload>(PayloadType(t ? t : 0x0101), b.data() + 4, b.size() - 4);
        if (!t)
            p->setType(PayloadType(0));
    }
    GenericPayloadObj()
    {
        RW("type", 4, p->getType().getType(), p->setType(PayloadType(static_cast<uint32_t>(v))));
        RW("messageType", 1, p->getMessageType(), p->setMessageType(static_cast<CmpHeader::MessageType>(v)));
        RW("rawPayloadType", 1, p->getRawPayloadType(), p->setRawPayloadType(static_cast<uint8_t>(v)));
    }
};

// A Packet has no raw image: its logical state is serialised in a fixed order so that the same
// field machinery applies (version 1, device id 2, stream id 1, sequence counter 2, timestamp 8,
// interface id 4, vendor id 2, common flags 1, segment type 1).
struct PacketObj : Obj
{
    Packet p;
    using CF = MessageHeader::CommonFlags;
    std::vector<uint8_t> raw() const override
    {
        std::vector<uint8_t> v;
        auto put = [&v](uint64_t x, int n) {
            for (int i = n - 1; i >= 0; --i)
                v.push_back(static_cast<uint8_t>(x >> (8 * i)));
        };
        put(p.getVersion(), 1);
        put(p.getDeviceId(), 2);
        put(p.getStreamId(), 1);
        put(p.getSequenceCounter(), 2);
        put(p.getTimestamp(), 8);
        put(p.getInterfaceId(), 4);
        put(p.getVendorId(), 2);
        put(p.getCommonFlags(), 1);
        put(static_cast<uint8_t>(p.getSegmentType()) >> 2, 1);
        return v;
    }
    void load(const std::vector<uint8_t>& b) override
    {
        auto take = [&b](size_t o, int n) {
            uint64_t x = 0;
            for (int i = 0; i < n; ++i)
                x = (x << 8) | b[o + i];
            return x;
        };
        p = Packet();
        p.setVersion(static_cast<uint8_t>(take(0, 1)));
        p.setDeviceId(static_cast<uint16_t>(take(1, 2)));
        p.setStreamId(static_cast<uint8_t>(take(3, 1)));
        p.setSequenceCounter(static_cast<uint16_t>(take(4, 2)));
        p.setTimestamp(take(6, 8));
        p.setInterfaceId(static_cast<uint32_t>(take(14, 4)));
        p.setVendorId(static_cast<uint16_t>(take(18, 2)));
        p.setCommonFlags(static_cast<uint8_t>(take(20, 1)));
        p.setSegmentType(static_cast<MessageHeader::SegmentType>((take(21, 1) & 3) << 2));
    }
    void flag(const char* n, CF m)
    {
        acc.push_back({n, 1, [this, m]() -> uint64_t { return p.getCommonFlag(m); }, [this, m](uint64_t v) { p.setCommonFlag(m, v != 0); }});
    }
    PacketObj()
    {
        RW("version", 1, p.getVersion(), p.setVersion(static_cast<uint8_t>(v)));
        RW("deviceId", 2, p.getDeviceId(), p.setDeviceId(static_cast<uint16_t>(v)));
        RW("streamId", 1, p.getStreamId(), p.setStreamId(static_cast<uint8_t>(v)));
        RW("sequenceCounter", 2, p.getSequenceCounter(), p.setSequenceCounter(static_cast<uint16_t>(v)));
        RW("timestamp", 8, p.getTimestamp(), p.setTimestamp(v));
        RW("interfaceId", 4, p.getInterfaceId(), p.setInterfaceId(static_cast<uint32_t>(v)));
        RW("vendorId", 2, p.getVendorId(), p.setVendorId(static_cast<uint16_t>(v)));
        RW("commonFlags", 1, p.getCommonFlags(), p.setCommonFlags(static_cast<uint8_t>(v)));
        RW("segmentType", 1, static_cast<uint8_t>(p.getSegmentType()) >> 2,
           p.setSegmentType(static_cast<MessageHeader::SegmentType>(static_cast<uint8_t>(v) << 2)));
        flag("recalc", CF::recalc);
        flag("insync", CF::insync);
        flag("diOnIf", CF::diOnIf);
        flag("overflow", CF::overflow);
        flag("errorInPayload", CF::errorInPayload);
        RW("segMask", 1, p.getCommonFlag(CF::seg) ? ((p.getCommonFlags() >> 2) & 3) : 0, p.setCommonFlag(CF::seg, v != 0));
    }
};

std::unique_ptr<Obj> make(const std::string& cls)
{
    if (cls == "cmpHeader") return std::make_unique<CmpHeaderObj>();
    if (cls == "msgHeader") return std::make_unique<MsgHeaderObj>();
    if (cls == "tecmpHeader") return std::make_unique<TecmpHeaderObj>();
    if (cls == "can") return std::make_unique<CanObj>();
    if (cls == "canfd") return std::make_unique<CanFdObj>();
    if (cls == "lin") return std::make_unique<LinObj>();
    if (cls == "eth") return std::make_unique<EthObj>();
    if (cls == "analog") return std::make_unique<AnalogObj>();
    if (cls == "cm") return std::make_unique<CmObj>();
    if (cls == "if") return std::make_unique<IfObj>();
    if (cls == "tecmpCan") return std::make_unique<TecmpCanObj>();
    if (cls == "tecmpLin") return std::make_unique<TecmpLinObj>();
    if (cls == "tecmpIf") return std::make_unique<TecmpIfObj>();
    if (cls == "tecmpCm") return std::make_unique<TecmpCmObj>();
    if (cls == "canHeader") return std::make_unique<CanHeaderObj>(false);
    if (cls == "canfdHeader") return std::make_unique<CanHeaderObj>(true);
    if (cls == "linHeader") return std::make_unique<LinHeaderObj>();
    if (cls == "ethHeader") return std::make_unique<EthHeaderObj>();
    if (cls == "analogHeader") return std::make_unique<AnalogHeaderObj>();
    if (cls == "cmHeader") return std::make_unique<CmHeaderObj>();
    if (cls == "ifHeader") return std::make_unique<IfHeaderObj>();
    if (cls == "payloadType") return std::make_unique<PayloadTypeObj>();
    if (cls == "payload") return std::make_unique<GenericPayloadObj>();
    if (cls == "packet") return std::make_unique<PacketObj>();
    return nullptr;
}

// what the variable-length accessors report, read through the pointer / length pairs of the API
void view(Out& o, const char* k, const uint8_t* p, size_t n)
{
    if (p == nullptr)
        n = 0;
    o.bytes(k, p, n);
}
void view(Out& o, const char* k, std::string_view s)
{
    o.bytes(k, reinterpret_cast<const uint8_t*>(s.data()), s.size());
}

template <typename P>
bool decodeCarrying(Out& o, const P& payload)
{
    // a frame carrying exactly this payload, through the library's own decoder
    const size_t n = payload.getLength();
    if (n > 65535)
        return false;
    std::vector<uint8_t> frame(sizeof(CmpHeader) + sizeof(MessageHeader) + n);
    CmpHeader ch;
    ch.setVersion(1);
    ch.setDeviceId(9);
    ch.setStreamId(3);
    ch.setMessageType(payload.getMessageType());
    MessageHeader mh;
    mh.setPayloadType(payload.getRawPayloadType());
    mh.setPayloadLength(static_cast<uint16_t>(n));
    memcpy(frame.data(), &ch, sizeof ch);
    memcpy(frame.data() + sizeof ch, &mh, sizeof mh);
    if (n)
        memcpy(frame.data() + sizeof ch + sizeof mh, payload.getRawPayload(), n);
    Decoder dec;
    o.arr("decoded");
    for (const auto& pkt : dec.decode(frame.data(), frame.size()))
        snapPacket(o, *pkt);
    o.endArr();
    return true;
}

// setData on the payload classes; returns false if the class has no such builder
bool setData(Obj& obj, const json& op, Out& o)
{
    const auto data = op.contains("data") ? bytesOf(op["data"]) : std::vector<uint8_t>();
    if (auto* c = dynamic_cast<CanObj*>(&obj))
    {
        c->p->setData(data.data(), static_cast<uint8_t>(data.size()));
        o.obj("views").kv("dataLength", c->p->getDataLength());
        view(o, "data", c->p->getData(), c->p->getDataLength());
        o.end().kv("valid", CanPayload::isValidPayload(c->p->getRawPayload(), c->p->getLength()));
        decodeCarrying(o, *c->p);
        return true;
    }
    if (auto* c = dynamic_cast<CanFdObj*>(&obj))
    {
        c->p->setData(data.data(), static_cast<uint8_t>(data.size()));
        o.obj("views").kv("dataLength", c->p->getDataLength());
        view(o, "data", c->p->getData(), c->p->getDataLength());
        o.end().kv("valid", CanFdPayload::isValidPayload(c->p->getRawPayload(), c->p->getLength()));
        decodeCarrying(o, *c->p);
        return true;
    }
    if (auto* c = dynamic_cast<LinObj*>(&obj))
    {
        c->p->setData(data.data(), static_cast<uint8_t>(data.size()));
        o.obj("views").kv("dataLength", c->p->getDataLength());
        view(o, "data", c->p->getData(), c->p->getDataLength());
        o.end().kv("valid", LinPayload::isValidPayload(c->p->getRawPayload(), c->p->getLength()));
        decodeCarrying(o, *c->p);
        return true;
    }
    if (auto* c = dynamic_cast<TecmpLinObj*>(&obj))
    {
        // the TECMP LIN payload class has a builder too (no validity check, no decoder path of its own)
        c->p->setData(data.data(), static_cast<uint8_t>(data.size()));
        o.obj("views").kv("dataLength", c->p->getDataLength());
        view(o, "data", c->p->getData(), c->p->getDataLength());
        o.end().kv("valid", true);
        return true;
    }
    if (auto* c = dynamic_cast<EthObj*>(&obj))
    {
        c->p->setData(data.data(), static_cast<uint16_t>(data.size()));
        o.obj("views").kv("dataLength", c->p->getDataLength());
        view(o, "data", c->p->getData(), c->p->getDataLength());
        o.end().kv("valid", EthernetPayload::isValidPayload(c->p->getRawPayload(), c->p->getLength()));
        decodeCarrying(o, *c->p);
        return true;
    }
    if (auto* c = dynamic_cast<AnalogObj*>(&obj))
    {
        c->p->setData(data.data(), data.size());
        const size_t sampleSize = c->p->getSampleDt() == AnalogPayload::SampleDt::aInt16 ? 2 : 4;
        o.obj("views").kv("samplesCount", c->p->getSamplesCount());
        view(o, "data", c->p->getData(), c->p->getSamplesCount() * sampleSize);
        o.end().kv("valid", AnalogPayload::isValidPayload(c->p->getRawPayload(), c->p->getLength()));
        decodeCarrying(o, *c->p);
        return true;
    }
    if (auto* c = dynamic_cast<CmObj*>(&obj))
    {
        auto str = [&op](const char* k) {
            const auto b = bytesOf(op.at(k));
            return std::string(b.begin(), b.end());
        };
        const std::string desc = str("desc"), serial = str("serial"), hw = str("hw"), sw = str("sw");
        c->p->setData(desc, serial, hw, sw, bytesOf(op.at("vendor")));
        o.obj("views");
        view(o, "desc", c->p->getDeviceDescription());
        view(o, "serial", c->p->getSerialNumber());
        view(o, "hw", c->p->getHardwareVersion());
        view(o, "sw", c->p->getSoftwareVersion());
        o.kv("vendorLength", c->p->getVendorDataLength());
        view(o, "vendor", c->p->getVendorData(), c->p->getVendorDataLength());
        view(o, "vendorView", c->p->getVendorDataStringView());
        o.end().kv("valid", CaptureModulePayload::isValidPayload(c->p->getRawPayload(), c->p->getLength()));
        decodeCarrying(o, *c->p);
        return true;
    }
    if (auto* c = dynamic_cast<IfObj*>(&obj))
    {
        const auto ids = bytesOf(op.at("ids"));
        const auto vendor = bytesOf(op.at("vendor"));
        c->p->setData(ids.data(), static_cast<uint16_t>(ids.size()), vendor.data(), static_cast<uint16_t>(vendor.size()));
        o.obj("views").kv("streamIdsCount", c->p->getStreamIdsCount());
        view(o, "ids", c->p->getStreamIds(), c->p->getStreamIdsCount());
        o.kv("vendorLength", c->p->getVendorDataLength());
        view(o, "vendor", c->p->getVendorData(), c->p->getVendorDataLength());
        o.end().kv("valid", InterfacePayload::isValidPayload(c->p->getRawPayload(), c->p->getLength()));
        decodeCarrying(o, *c->p);
        return true;
    }
    return false;
}

// values derived from several fields (no setter of their own)
void logDerived(Out& o, const Obj& obj)
{
    if (const auto* t = dynamic_cast<const TecmpCmObj*>(&obj))
    {
        const std::string sw = t->p->getSwVersion(), hw = t->p->getHwVersion();
        o.obj("derived");
        o.bytes("swVersion", reinterpret_cast<const uint8_t*>(sw.data()), sw.size());
        o.bytes("hwVersion", reinterpret_cast<const uint8_t*>(hw.data()), hw.size());
        o.kv("voltageCenti", static_cast<long>(t->p->getVoltage() * 100.0f + 0.5f));
        o.end();
    }
    else if (const auto* y = dynamic_cast<const PayloadTypeObj*>(&obj))
    {
        o.obj("derived").kv("isValid", y->t.isValid()).end();
    }
}

void logObj(Out& o, const Obj& obj)
{
    logDerived(o, obj);
    o.bytes("raw", obj.raw());
    o.obj("get");
    for (const auto& a : obj.acc)
        o.be(a.name.c_str(), a.get(), a.nbytes);
    o.end();
}
}

void runObj(const json& ep)
{
    std::unique_ptr<Obj> obj;
    std::string cls;
    long k = 0;
    for (const auto& op : ep.at("ops"))
    {
        noteOp(k++);
        const std::string name = op.at("op");
        Out o;
        if (name == "new" || name == "load")
        {
            cls = op.at("cls");
            obj = make(cls);
            if (!obj)
            {
                o.obj().kv("e", "unknown-op").kv("op", "class " + cls).end();
                emitLine(o.str());
                continue;
            }
            o.obj().kv("e", "obj." + name).kv("cls", cls);
            if (name == "load")
            {
                const auto bytes = bytesOf(op.at("raw"));
                obj->load(bytes);
                o.bytes("loaded", bytes);
            }
            logObj(o, *obj);
            o.end();
        }
        else if (name == "set" && obj)
        {
            const std::string f = op.at("f");
            const uint64_t v = beValue(op.at("v"));
            bool found = false;
            for (const auto& a : obj->acc)
                if (a.name == f && a.set)
                {
                    a.set(v);
                    found = true;
                }
            o.obj().kv("e", found ? "obj.set" : "unknown-op").kv("cls", cls).kv("f", f).bytes("v", bytesOf(op.at("v")));
            logObj(o, *obj);
            o.end();
        }
        else if (name == "rawhdr")
        {
            // the raw CMP header and message header a packet renders (what the encoder puts on the wire)
            const Packet pkt = makePacket(op.at("pkt"));
            uint8_t ch[sizeof(CmpHeader)];
            uint8_t mh[sizeof(MessageHeader)];
            pkt.getRawCmpHeader(ch);
            pkt.getRawMessageHeader(mh);
            o.obj().kv("e", "obj.rawhdr");
            o.key("pkt");
            snapPacket(o, pkt);
            o.bytes("cmp", ch, sizeof ch).bytes("msg", mh, sizeof mh).end();
        }
        else if (name == "setData" && obj)
        {
            o.obj().kv("e", "obj.setData").kv("cls", cls).raw("args", op.dump());
            // the same arguments on a fresh object that carries only this object's header bytes
            std::vector<uint8_t> hdrBytes = obj->raw();
            const std::map<std::string, size_t> hdrSize = {{"can", 16}, {"canfd", 16}, {"lin", 8}, {"eth", 6}, {"analog", 16}, {"cm", 26}, {"if", 36}};
            if (hdrSize.count(cls) && hdrBytes.size() >= hdrSize.at(cls))
            {
                hdrBytes.resize(hdrSize.at(cls));
                auto fresh = make(cls);
                fresh->load(hdrBytes);
                Out scratch;
                scratch.obj();
                if (setData(*fresh, op, scratch))
                    o.bytes("freshraw", fresh->raw());
            }
            if (!setData(*obj, op, o))
                o.kv("nobuilder", true);
            logObj(o, *obj);
            o.end();
        }
        else
        {
            o.obj().kv("e", "unknown-op").kv("op", name).end();
        }
        emitLine(o.str());
    }
}
