// Value-semantics component (C14): a store of Packet (or Payload) objects; make / copy / move / assign /
// massign / mutate / eq.  After every operation all slots are snapshotted.
#include <map>

#include <asam_cmp/tecmp_payload.h>

#include "common.h"

using nlohmann::json;
using namespace ASAM::CMP;

namespace
{
// every getter that is safe to call: a packet without payload object cannot be asked for its type
void safeSnap(Out& o, const Packet& p)
{
    o.obj();
    o.kv("dev", p.getDeviceId()).kv("st", p.getStreamId()).kv("ver", p.getVersion());
    o.be("ts", p.getTimestamp(), 8).be("ifid", p.getInterfaceId(), 4);
    o.kv("vid", p.getVendorId()).kv("fl", p.getCommonFlags());
    o.kv("seq", p.getSequenceCounter()).kv("seg", static_cast<int>(p.getSegmentType()) >> 2);
    o.kv("len", p.getPayloadLength()).kv("valid", p.isValid());
    if (p.isValid() || p.getPayloadLength() > 0)
    {
        o.kv("mt", static_cast<int>(p.getMessageType())).kv("pt", p.getPayloadType());
        o.bytes("pl", p.getPayload().getRawPayload(), p.getPayload().getLength());
    }
    o.end();
}

Packet build(const json& d)
{
    if (d.value("empty", false))
    {
        Packet p;
        p.setVersion(static_cast<uint8_t>(d.value("ver", 1)));
        p.setDeviceId(static_cast<uint16_t>(d.value("dev", 0)));
        p.setStreamId(static_cast<uint8_t>(d.value("st", 0)));
        p.setSequenceCounter(static_cast<uint16_t>(d.value("seq", 0)));
        if (d.contains("ts"))
            p.setTimestamp(beValue(d["ts"]));
        if (d.contains("ifid"))
            p.setInterfaceId(static_cast<uint32_t>(beValue(d["ifid"])));
        p.setVendorId(static_cast<uint16_t>(d.value("vid", 0)));
        p.setCommonFlags(static_cast<uint8_t>(d.value("fl", 0)));
        return p;
    }
    return makePacket(d);
}

template <typename P>
void snapPayload(Out& o, const P& p)
{
    o.obj().be("type", p.getType().getType(), 4).kv("len", p.getLength());
    o.bytes("pl", p.getRawPayload(), p.getLength()).kv("valid", p.isValid()).end();
}

template <typename P, typename MakeFn, typename SnapFn, typename MutFn>
void runStore(const json& ep, const char* kind, MakeFn makeFn, SnapFn snapFn, MutFn mutFn)
{
    std::map<int, std::unique_ptr<P>> slots;
    long k = 0;
    for (const auto& op : ep.at("ops"))
    {
        noteOp(k++);
        const std::string name = op.at("op");
        Out o;
        o.obj().kv("e", "val." + name).kv("kind", kind);
        if (name == "make")
        {
            slots[op.at("slot").get<int>()] = std::make_unique<P>(makeFn(op.at("pkt")));
            o.kv("slot", op.at("slot").get<int>());
        }
        else if (name == "copy" || name == "move" || name == "assign" || name == "massign")
        {
            const int d = op.at("dst").get<int>(), s = op.at("src").get<int>();
            if (name == "copy")
                slots[d] = std::make_unique<P>(*slots.at(s));
            else if (name == "move")
                slots[d] = std::make_unique<P>(std::move(*slots.at(s)));
            else if (name == "assign")
                *slots.at(d) = *slots.at(s);
            else
                *slots.at(d) = std::move(*slots.at(s));
            o.kv("dst", d).kv("src", s);
        }
        else if (name == "mutate")
        {
            mutFn(*slots.at(op.at("slot").get<int>()), op);
            o.kv("slot", op.at("slot").get<int>());
        }
        else if (name == "copyref")
        {
            // a reference to the source's payload obtained BEFORE the copy is made, written through afterwards:
            // the copy must keep the value the source had when it was copied (copies share no state)
            const int d = op.at("dst").get<int>(), s = op.at("src").get<int>();
            if constexpr (std::is_same_v<P, Packet>)
            {
                Payload& h = slots.at(s)->getPayload();
                if (op.value("assign", false) && slots.count(d))
                    *slots.at(d) = *slots.at(s);
                else
                    slots[d] = std::make_unique<P>(*slots.at(s));
                h.setRawPayloadType(static_cast<uint8_t>(op.value("ptvia", 9)));
            }
            o.kv("dst", d).kv("src", s);
        }
        else if (name == "selfset")
        {
            // the object's own payload given back to it (aliasing): the value must not change
            if constexpr (std::is_same_v<P, Packet>)
            {
                P& x = *slots.at(op.at("slot").get<int>());
                x.setPayload(x.getPayload());
            }
            o.kv("slot", op.at("slot").get<int>());
        }
        else if (name == "eq")
        {
            const int a = op.at("a").get<int>(), b = op.at("b").get<int>();
            const P& x = *slots.at(a);
            const P& y = *slots.at(b);
            o.kv("a", a).kv("b", b).kv("eq", x == y).kv("eqrev", y == x);
            if constexpr (std::is_same_v<P, Packet>)
                o.kv("neq", x != y);
        }
        else
        {
            Out u;
            u.obj().kv("e", "unknown-op").kv("op", name).end();
            emitLine(u.str());
            continue;
        }
        o.arr("slots");
        for (const auto& s : slots)
        {
            o.obj().kv("k", s.first);
            o.key("v");
            snapFn(o, *s.second);
            o.end();
        }
        o.endArr().end();
        emitLine(o.str());
    }
}
}

void runVal(const json& ep)
{
    const std::string kind = ep.value("kind", "packet");
    if (kind == "packet")
        runStore<Packet>(
            ep, "packet", [](const json& d) { return build(d); }, [](Out& o, const Packet& p) { safeSnap(o, p); },
            [](Packet& p, const json& op) {
                if (op.contains("ts"))
                    p.setTimestamp(beValue(op["ts"]));
                if (op.contains("fl"))
                    p.setCommonFlags(static_cast<uint8_t>(op["fl"].get<int>()));
                if (op.contains("ptvia"))
                    p.getPayload().setRawPayloadType(static_cast<uint8_t>(op["ptvia"].get<int>()));   // through the non-const reference
                if (op.contains("pl"))
                {
                    const auto b = bytesOf(op["pl"]);
                    p.setPayload(Payload(p.getPayload().getType(), b.data(), b.size()));
                }
            });
    else if (kind == "payload")
        runStore<Payload>(
            ep, "payload",
            [](const json& d) {
                const auto b = bytesOf(d.at("pl"));
                return Payload(PayloadType(static_cast<CmpHeader::MessageType>(d.at("mt").get<int>()), static_cast<uint8_t>(d.at("pt").get<int>())),
                               b.data(), b.size());
            },
            [](Out& o, const Payload& p) { snapPayload(o, p); },
            [](Payload& p, const json& op) { p.setRawPayloadType(static_cast<uint8_t>(op.value("pt", 9))); });
    else
        runStore<TECMP::Payload>(
            ep, "tecmp",
            [](const json& d) {
                const auto b = bytesOf(d.at("pl"));
                return TECMP::Payload(TECMP::PayloadType(static_cast<TECMP::CmpHeader::MessageType>(d.at("mt").get<int>()),
                                                         static_cast<uint8_t>(d.at("pt").get<int>())),
                                      b.data(), b.size());
            },
            [](Out& o, const TECMP::Payload& p) { snapPayload(o, p); },
            [](TECMP::Payload& p, const json& op) { p.setRawPayloadType(static_cast<uint8_t>(op.value("pt", 9))); });
}
