// Packet construction from case descriptions and packet snapshots for the log.
#include <algorithm>

#include "common.h"

using nlohmann::json;
using namespace ASAM::CMP;

std::vector<uint8_t> bytesOf(const json& a)
{
    std::vector<uint8_t> v;
    v.reserve(a.size());
    for (const auto& x : a)
        v.push_back(static_cast<uint8_t>(x.get<int>()));
    return v;
}

uint64_t beValue(const json& a)
{
    uint64_t v = 0;
    for (const auto& x : a)
        v = (v << 8) | static_cast<uint8_t>(x.get<int>());
    return v;
}

// A packet as a user would build it: a payload object of the given type holding the given bytes,
// header fields through the setters.
Packet makePacket(const json& p)
{
    const auto mt = static_cast<CmpHeader::MessageType>(p.at("mt").get<int>());
    const uint8_t pt = static_cast<uint8_t>(p.at("pt").get<int>());
    const std::vector<uint8_t> pl = bytesOf(p.at("pl"));
    Packet pkt;
    Payload payload(PayloadType(mt, pt), pl.data(), pl.size());
    pkt.setPayload(payload);
    if (p.contains("ver"))
        pkt.setVersion(static_cast<uint8_t>(p["ver"].get<int>()));
    if (p.contains("ts"))
        pkt.setTimestamp(beValue(p["ts"]));
    if (p.contains("ifid"))
        pkt.setInterfaceId(static_cast<uint32_t>(beValue(p["ifid"])));
    if (p.contains("vid"))
        pkt.setVendorId(static_cast<uint16_t>(p["vid"].get<int>()));
    if (p.contains("fl"))
        pkt.setCommonFlags(static_cast<uint8_t>(p["fl"].get<int>()));
    if (p.contains("dev"))
        pkt.setDeviceId(static_cast<uint16_t>(p["dev"].get<int>()));
    if (p.contains("st"))
        pkt.setStreamId(static_cast<uint8_t>(p["st"].get<int>()));
    if (p.contains("seq"))
        pkt.setSequenceCounter(static_cast<uint16_t>(p["seq"].get<int>()));
    if (p.contains("seg"))
        pkt.setSegmentType(static_cast<MessageHeader::SegmentType>(p["seg"].get<int>() << 2));
    return pkt;
}

// the batch element as the judge sees it: exactly what was put into the packet
void logBatchPacket(Out& o, const json& p)
{
    o.obj();
    o.kv("mt", p.at("mt").get<int>()).kv("pt", p.at("pt").get<int>());
    o.kv("ver", p.value("ver", 1));
    o.bytes("ts", p.contains("ts") ? bytesOf(p["ts"]) : std::vector<uint8_t>(8, 0));
    o.bytes("ifid", p.contains("ifid") ? bytesOf(p["ifid"]) : std::vector<uint8_t>(4, 0));
    o.kv("vid", p.value("vid", 0));
    o.kv("fl", p.value("fl", 0));
    o.bytes("pl", bytesOf(p.at("pl")));
    o.end();
}

// every getter of a packet plus its payload bytes
void snapPacket(Out& o, const Packet& p)
{
    o.obj();
    o.kv("dev", p.getDeviceId()).kv("st", p.getStreamId()).kv("ver", p.getVersion());
    o.kv("mt", static_cast<int>(p.getMessageType())).kv("pt", p.getPayloadType());
    o.be("ts", p.getTimestamp(), 8).be("ifid", p.getInterfaceId(), 4);
    o.kv("vid", p.getVendorId()).kv("fl", p.getCommonFlags());
    o.kv("seq", p.getSequenceCounter()).kv("seg", static_cast<int>(p.getSegmentType()) >> 2);
    o.kv("len", p.getPayloadLength());
    o.bytes("pl", p.getPayload().getRawPayload(), p.getPayload().getLength());
    o.kv("valid", p.isValid());
    o.end();
}

// Frames as returned.  A frame longer than the configured maximum is logged up to maximum + 64 bytes only (it stays
// longer than the maximum for the judge, which is all any monitor can say about it) and its real size is noted:
// an encoder that returns frames of 64 KiB for a 40 byte maximum would otherwise produce log lines of hundreds of MB
// that the judge cannot read (seen with seeded change round6c-2: machinery error instead of a verdict).
void logFrames(Out& o, const char* k, const std::vector<std::vector<uint8_t>>& frames, size_t maxSize)
{
    const size_t cap = maxSize > SIZE_MAX - 64 ? SIZE_MAX : maxSize + 64;
    std::vector<std::pair<size_t, size_t>> cut;
    o.arr(k);
    for (size_t i = 0; i < frames.size(); ++i)
    {
        const auto& f = frames[i];
        if (f.size() > cap)
            cut.emplace_back(i, f.size());
        o.bytes(f.data(), std::min(f.size(), cap));
    }
    o.endArr();
    if (!cut.empty())
    {
        o.arr((std::string(k) + "_cut").c_str());
        for (const auto& c : cut)
            o.arr().val(static_cast<long long>(c.first)).val(static_cast<long long>(c.second)).endArr();
        o.endArr();
    }
}

// the status tracker as the judge sees it: every entry (device, packet, interfaces), counts and lookups
void snapStatus(Out& o, const Status& st, const json& probe)
{
    // the non-const accessors give the same objects as the const ones
    Status& nc = const_cast<Status&>(st);
    bool ncok = true;
    for (size_t k = 0; k < st.getDeviceStatusCount(); ++k)
    {
        const DeviceStatus& ds = st.getDeviceStatus(k);
        DeviceStatus& nds = nc.getDeviceStatus(k);
        ncok = ncok && &nds == &ds && &nds.getPacket() == &ds.getPacket();
        for (size_t j = 0; j < ds.getInterfaceStatusCount(); ++j)
            ncok = ncok && &nds.getInterfaceStatus(j) == &ds.getInterfaceStatus(j) &&
                   &nds.getInterfaceStatus(j).getPacket() == &ds.getInterfaceStatus(j).getPacket();
    }
    o.kv("ncok", ncok);
    o.arr("snap");
    for (size_t k = 0; k < st.getDeviceStatusCount(); ++k)
    {
        const DeviceStatus& ds = st.getDeviceStatus(k);
        o.obj().kv("dev", ds.getPacket().getDeviceId());
        o.key("pkt");
        snapPacket(o, ds.getPacket());
        o.arr("ifs");
        for (size_t j = 0; j < ds.getInterfaceStatusCount(); ++j)
        {
            const InterfaceStatus& is = ds.getInterfaceStatus(j);
            o.obj().be("id", is.getInterfaceId(), 4);
            o.key("pkt");
            snapPacket(o, is.getPacket());
            o.end();
        }
        o.endArr();
        // lookups by interface id on this device
        o.arr("iflookup");
        if (probe.contains("ifs"))
            for (const auto& i : probe["ifs"])
                o.obj().bytes("id", bytesOf(i)).kv("idx", ds.getIndexByInterfaceId(static_cast<uint32_t>(beValue(i)))).end();
        o.endArr();
        o.end();
    }
    o.endArr();
    o.kv("count", st.getDeviceStatusCount());
    o.arr("devlookup");
    if (probe.contains("devs"))
        for (const auto& d : probe["devs"])
            o.obj().kv("dev", d.get<int>()).kv("idx", st.getIndexByDeviceId(static_cast<uint16_t>(d.get<int>()))).end();
    o.endArr();
}

// the decoder's pending table through the read-only hook
void logPending(Out& o, const char* key, const Decoder& dec)
{
    o.arr(key);
    for (const auto& p : dec.verifPending())
    {
        o.obj().kv("dev", p.deviceId).kv("st", p.streamId).kv("seg", p.segmentType >> 2).kv("ver", p.version);
        o.kv("mt", p.messageType).kv("cur", p.lastCounter).bytes("buf", p.buffer).end();
    }
    o.endArr();
}
