// Shared helpers of the executor: a small streaming JSON writer and the component entry points.
#pragma once
#include <cstdint>
#include <string>
#include <vector>

#include <nlohmann/json.hpp>

class Out
{
public:
    Out& obj()
    {
        sep();
        s += '{';
        need.push_back(false);
        return *this;
    }
    Out& obj(const char* k)
    {
        key(k);
        pendingValue = false;
        s += '{';
        need.push_back(false);
        return *this;
    }
    Out& end()
    {
        s += '}';
        need.pop_back();
        return *this;
    }
    Out& arr(const char* k)
    {
        key(k);
        pendingValue = false;
        s += '[';
        need.push_back(false);
        return *this;
    }
    Out& arr()
    {
        sep();
        s += '[';
        need.push_back(false);
        return *this;
    }
    Out& endArr()
    {
        s += ']';
        need.pop_back();
        return *this;
    }
    Out& key(const char* k)
    {
        sep();
        s += '"';
        s += k;
        s += "\":";
        pendingValue = true;   // the value that follows must not emit a comma
        return *this;
    }
    Out& val(long long v)
    {
        sep();
        s += std::to_string(v);
        return *this;
    }
    Out& val(bool v)
    {
        sep();
        s += v ? "true" : "false";
        return *this;
    }
    Out& val(const std::string& v)
    {
        sep();
        s += '"';
        for (char c : v)
        {
            if (c == '"' || c == '\\')
            {
                s += '\\';
                s += c;
            }
            else if (static_cast<unsigned char>(c) < 0x20)
            {
                char buf[8];
                snprintf(buf, sizeof buf, "\\u%04x", c);
                s += buf;
            }
            else
                s += c;
        }
        s += '"';
        return *this;
    }
    Out& kv(const char* k, long long v) { return key(k).val(v); }
    Out& kv(const char* k, long v) { return key(k).val(static_cast<long long>(v)); }
    Out& kv(const char* k, int v) { return key(k).val(static_cast<long long>(v)); }
    Out& kv(const char* k, unsigned v) { return key(k).val(static_cast<long long>(v)); }
    Out& kv(const char* k, unsigned long v) { return key(k).val(static_cast<long long>(v)); }
    Out& kv(const char* k, bool v) { return key(k).val(v); }
    Out& kv(const char* k, const std::string& v) { return key(k).val(v); }
    Out& kv(const char* k, const char* v) { return key(k).val(std::string(v)); }
    Out& bytes(const uint8_t* p, size_t n)
    {
        sep();
        s += '[';
        for (size_t i = 0; i < n; ++i)
        {
            if (i)
                s += ',';
            appendByte(p[i]);
        }
        s += ']';
        return *this;
    }
    Out& bytes(const char* k, const uint8_t* p, size_t n) { return key(k).bytes(p, n); }
    Out& bytes(const char* k, const std::vector<uint8_t>& v) { return key(k).bytes(v.data(), v.size()); }
    // big-endian byte arrays of wide integers: TLC integers are 32 bit
    Out& be(const char* k, uint64_t v, int nbytes)
    {
        uint8_t b[8];
        for (int i = 0; i < nbytes; ++i)
            b[i] = static_cast<uint8_t>(v >> (8 * (nbytes - 1 - i)));
        return bytes(k, b, nbytes);
    }
    Out& raw(const char* k, const std::string& json)
    {
        key(k);
        sep();
        s += json;
        return *this;
    }
    const std::string& str() const { return s; }

private:
    void appendByte(uint8_t b)
    {
        if (b >= 100)
            s += static_cast<char>('0' + b / 100);
        if (b >= 10)
            s += static_cast<char>('0' + (b / 10) % 10);
        s += static_cast<char>('0' + b % 10);
    }
    void sep()
    {
        if (pendingValue)
        {
            pendingValue = false;
            return;
        }
        if (!need.empty())
        {
            if (need.back())
                s += ',';
            need.back() = true;
        }
    }
    std::string s;
    std::vector<bool> need;
    bool pendingValue{false};
};

void emitLine(const std::string& s);
void noteOp(long k);
void runEpisode(const nlohmann::json& episode);

std::vector<uint8_t> bytesOf(const nlohmann::json& a);
