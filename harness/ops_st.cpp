// Status component: update / removeDev / removeIf / clear, with save / restore for tree-shaped replays.
#include <map>

#include "common.h"

using nlohmann::json;
using namespace ASAM::CMP;

namespace
{
void snapshot(Out& o, const Status& st, const json& probe)
{
    o.arr("snap");
    for (size_t k = 0; k < st.getDeviceStatusCount(); ++k)
    {
        const DeviceStatus& ds = st.getDeviceStatus(k);
        o.obj().kv("dev", ds.getPacket().getDeviceId());
        o.key("pkt");
        snapPacket(o, ds.getPacket());
        o.arr("ifs");
        for (size_t j = 0; j < ds.getInterfaceStatusCount(); ++j)
        {
            const InterfaceStatus& is = ds.getInterfaceStatus(j);
            o.obj().be("id", is.getInterfaceId(), 4);
            o.key("pkt");
            snapPacket(o, is.getPacket());
            o.end();
        }
        o.endArr();
        // lookups by interface id on this device
        o.arr("iflookup");
        if (probe.contains("ifs"))
            for (const auto& i : probe["ifs"])
                o.obj().bytes("id", bytesOf(i)).kv("idx", ds.getIndexByInterfaceId(static_cast<uint32_t>(beValue(i)))).end();
        o.endArr();
        o.end();
    }
    o.endArr();
    o.kv("count", st.getDeviceStatusCount());
    o.arr("devlookup");
    if (probe.contains("devs"))
        for (const auto& d : probe["devs"])
            o.obj().kv("dev", d.get<int>()).kv("idx", st.getIndexByDeviceId(static_cast<uint16_t>(d.get<int>()))).end();
    o.endArr();
}
}

void runSt(const json& ep)
{
    Status st;
    std::map<int, Status> slots;
    const json probe = ep.value("probe", json::object());
    long k = 0;
    for (const auto& op : ep.at("ops"))
    {
        noteOp(k++);
        const std::string name = op.at("op");
        Out o;
        if (name == "new")
        {
            st = Status();
            slots[0] = st;
            o.obj().kv("e", "st.new");
        }
        else if (name == "restore")
        {
            st = slots.at(op.at("slot").get<int>());
            o.obj().kv("e", "st.restore").kv("slot", op.at("slot").get<int>());
        }
        else if (name == "update")
        {
            Packet p = makePacket(op.at("pkt"));
            o.obj().kv("e", "st.update");
            o.key("pkt");
            snapPacket(o, p);
            st.update(p);
        }
        else if (name == "removeDev")
        {
            st.removeDeviceById(static_cast<uint16_t>(op.at("dev").get<int>()));
            o.obj().kv("e", "st.removeDev").kv("dev", op.at("dev").get<int>());
        }
        else if (name == "removeIf")
        {
            const uint16_t dev = static_cast<uint16_t>(op.at("dev").get<int>());
            const auto idx = st.getIndexByDeviceId(dev);
            if (idx < st.getDeviceStatusCount())
                st.getDeviceStatus(idx).removeInterfaceById(static_cast<uint32_t>(beValue(op.at("ifid"))));
            o.obj().kv("e", "st.removeIf").kv("dev", op.at("dev").get<int>()).bytes("ifid", bytesOf(op.at("ifid")));
        }
        else if (name == "clear")
        {
            st.clear();
            o.obj().kv("e", "st.clear");
        }
        else
        {
            o.obj().kv("e", "unknown-op").kv("op", name).end();
            emitLine(o.str());
            continue;
        }
        if (op.contains("save"))
        {
            slots[op["save"].get<int>()] = st;
            o.kv("save", op["save"].get<int>());
        }
        snapshot(o, st, probe);
        o.end();
        emitLine(o.str());
    }
}
