// Status component: update / removeDev / removeIf / clear, with save / restore for tree-shaped replays.
// The sys.* operations feed the tracker from the composed system instead: one real encoder per device, a link
// (queue per device) that can lose frames, one real decoder, every decoded packet into Status::update.
#include <deque>
#include <map>

#include "common.h"

using nlohmann::json;
using namespace ASAM::CMP;


namespace
{
struct Sys
{
    std::map<int, Encoder> enc;
    std::map<int, std::deque<std::vector<uint8_t>>> q;
    Decoder dec;
};
}

void runSt(const json& ep)
{
    Status st;
    std::map<int, Status> slots;
    Sys sys;
    std::map<int, Sys> sysSlots;
    const json probe = ep.value("probe", json::object());
    long k = 0;
    for (const auto& op : ep.at("ops"))
    {
        noteOp(k++);
        const std::string name = op.at("op");
        Out o;
        if (name == "new")
        {
            st = Status();
            slots[0] = st;
            sys = Sys();
            sysSlots[0] = sys;
            o.obj().kv("e", "st.new");
        }
        else if (name == "restore")
        {
            st = slots.at(op.at("slot").get<int>());
            sys = sysSlots[op.at("slot").get<int>()];
            o.obj().kv("e", "st.restore").kv("slot", op.at("slot").get<int>());
        }
        else if (name == "update")
        {
            Packet p = makePacket(op.at("pkt"));
            o.obj().kv("e", "st.update");
            o.key("pkt");
            snapPacket(o, p);
            st.update(p);
        }
        else if (name == "removeDev")
        {
            st.removeDeviceById(static_cast<uint16_t>(op.at("dev").get<int>()));
            o.obj().kv("e", "st.removeDev").kv("dev", op.at("dev").get<int>());
        }
        else if (name == "removeIf")
        {
            const uint16_t dev = static_cast<uint16_t>(op.at("dev").get<int>());
            const auto idx = st.getIndexByDeviceId(dev);
            if (idx < st.getDeviceStatusCount())
                st.getDeviceStatus(idx).removeInterfaceById(static_cast<uint32_t>(beValue(op.at("ifid"))));
            o.obj().kv("e", "st.removeIf").kv("dev", op.at("dev").get<int>()).bytes("ifid", bytesOf(op.at("ifid")));
        }
        else if (name == "sys.emit")
        {
            const int dev = op.at("dev").get<int>();
            if (!sys.enc.count(dev))
            {
                sys.enc[dev].setDeviceId(static_cast<uint16_t>(dev));
                sys.enc[dev].setStreamId(static_cast<uint8_t>(op.at("stream").get<int>()));
            }
            std::vector<Packet> batch;
            for (const auto& p : op.at("batch"))
                batch.push_back(makePacket(p));
            DataContext ctx{op.at("min").get<size_t>(), op.at("max").get<size_t>()};
            auto frames = sys.enc[dev].encode(batch.begin(), batch.end(), ctx);
            o.obj().kv("e", "sys.emit").kv("dev", dev).kv("stream", op.at("stream").get<int>());
            o.kv("min", op.at("min").get<int>()).kv("max", op.at("max").get<int>());
            o.arr("batch");
            for (const auto& p : op.at("batch"))
                logBatchPacket(o, p);
            o.endArr();
            logFrames(o, "frames", frames, ctx.maxBytesPerMessage);
            for (auto& f : frames)
                sys.q[dev].push_back(std::move(f));
        }
        else if (name == "sys.deliver" || name == "sys.lose")
        {
            const int dev = op.at("dev").get<int>();
            o.obj().kv("e", name.c_str()).kv("dev", dev);
            std::vector<uint8_t> f;
            const bool have = !sys.q[dev].empty();
            if (have)
            {
                f = std::move(sys.q[dev].front());
                sys.q[dev].pop_front();
            }
            o.kv("have", have).bytes("frame", f);
            if (name == "sys.deliver")
            {
                std::vector<std::shared_ptr<Packet>> out;
                if (have)
                    out = sys.dec.decode(f.data(), f.size());
                o.arr("out");
                for (const auto& p : out)
                    snapPacket(o, *p);
                o.endArr();
                for (const auto& p : out)
                    st.update(*p);
            }
        }
        else if (name == "sys.tecmp")
        {
            // a TECMP status message straight into the system's decoder; what it converts to updates the tracker
            const std::vector<uint8_t> f = bytesOf(op.at("frame"));
            const auto out = sys.dec.decode(f.data(), f.size());
            o.obj().kv("e", "sys.tecmp").kv("dev", op.at("dev").get<int>()).bytes("frame", f);
            o.arr("out");
            for (const auto& p : out)
                snapPacket(o, *p);
            o.endArr();
            for (const auto& p : out)
                st.update(*p);
        }
        else if (name == "clear")
        {
            st.clear();
            o.obj().kv("e", "st.clear");
        }
        else
        {
            o.obj().kv("e", "unknown-op").kv("op", name).end();
            emitLine(o.str());
            continue;
        }
        if (op.contains("save"))
        {
            slots[op["save"].get<int>()] = st;
            if (!sys.enc.empty() || !sysSlots.empty())
                sysSlots[op["save"].get<int>()] = sys;
            o.kv("save", op["save"].get<int>());
        }
        snapStatus(o, st, probe);
        o.end();
        emitLine(o.str());
    }
}
