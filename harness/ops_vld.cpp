// Validation component (C03): the validity checks of the typed payload classes and of the message level, and -
// for what they accept - every const accessor of the object built from the buffer.  Views are logged as
// (offset from the payload's own bytes, length); the input lives in a mapping that ends at an inaccessible page.
#include <sys/mman.h>
#include <unistd.h>

#include <map>

#include "common.h"

using nlohmann::json;
using namespace ASAM::CMP;

namespace
{
struct Guarded
{
    uint8_t* base{nullptr};
    uint8_t* ptr{nullptr};
    size_t total{0};
    explicit Guarded(const std::vector<uint8_t>& bytes)
    {
        const size_t page = static_cast<size_t>(sysconf(_SC_PAGESIZE));
        const size_t dataPages = (bytes.size() + page - 1) / page + (bytes.empty() ? 1 : 0);
        total = (dataPages + 1) * page;
        base = static_cast<uint8_t*>(mmap(nullptr, total, PROT_READ | PROT_WRITE, MAP_PRIVATE | MAP_ANONYMOUS, -1, 0));
        if (base == MAP_FAILED)
            _exit(3);
        ptr = base + dataPages * page - bytes.size();
        if (!bytes.empty())
            memcpy(ptr, bytes.data(), bytes.size());
        mprotect(base + dataPages * page, page, PROT_NONE);
        mprotect(base, dataPages * page, PROT_READ);
    }
    ~Guarded() { munmap(base, total); }
};

void view(Out& o, const char* name, const Payload& p, const void* ptr, size_t len)
{
    o.obj().kv("n", name);
    if (ptr == nullptr)
        o.kv("null", true);
    else
        o.kv("off", static_cast<long long>(static_cast<const uint8_t*>(ptr) - p.getRawPayload()));
    o.kv("len", len).end();
}

// touch every byte a view describes: under ASan / guard pages an out-of-bounds view ends the worker
thread_local volatile unsigned sink;
void touch(const void* ptr, size_t len)
{
    const uint8_t* p = static_cast<const uint8_t*>(ptr);
    unsigned s = 0;
    for (size_t i = 0; p && i < len; ++i)
        s += p[i];
    sink = s;
}

template <typename P>
void canViews(Out& o, const P& p)
{
    (void) p.getFlags();
    (void) p.getId();
    (void) p.getRsvd();
    (void) p.getIde();
    (void) p.getCrcSupport();
    (void) p.getErrorPosition();
    (void) p.getDlc();
    (void) p.getCrc();
    touch(p.getData(), p.getDataLength());
    view(o, "data", p, p.getData(), p.getDataLength());
}

void accessors(Out& o, const std::string& kind, const uint8_t* data, size_t size)
{
    o.arr("views");
    if (kind == "can")
    {
        CanPayload p(data, size);
        (void) p.getRtr();
        canViews(o, p);
    }
    else if (kind == "canfd")
    {
        CanFdPayload p(data, size);
        (void) p.getRrs();
        (void) p.getSbc();
        (void) p.getSbcParity();
        (void) p.getSbcSupport();
        canViews(o, p);
    }
    else if (kind == "lin")
    {
        LinPayload p(data, size);
        (void) p.getFlags();
        (void) p.getLinId();
        (void) p.getParityBits();
        (void) p.getChecksum();
        touch(p.getData(), p.getDataLength());
        view(o, "data", p, p.getData(), p.getDataLength());
    }
    else if (kind == "eth")
    {
        EthernetPayload p(data, size);
        (void) p.getFlags();
        touch(p.getData(), p.getDataLength());
        view(o, "data", p, p.getData(), p.getDataLength());
    }
    else if (kind == "analog")
    {
        AnalogPayload p(data, size);
        (void) p.getFlags();
        (void) p.getUnit();
        (void) p.getSampleInterval();
        (void) p.getSampleOffset();
        (void) p.getSampleScalar();
        const size_t ss = p.getSampleDt() == AnalogPayload::SampleDt::aInt16 ? 2 : 4;
        touch(p.getData(), p.getSamplesCount() * ss);
        view(o, "data", p, p.getData(), p.getSamplesCount() * ss);
    }
    else if (kind == "cm")
    {
        CaptureModulePayload p(data, size);
        (void) p.getUptime();
        (void) p.getGmIdentity();
        (void) p.getGmClockQuality();
        (void) p.getCurrentUtcOffset();
        (void) p.getTimeSource();
        (void) p.getDomainNumber();
        (void) p.getGptpFlags();
        auto sv = [&](const char* n, std::string_view s) {
            touch(s.data(), s.size());
            view(o, n, p, s.data(), s.size());
        };
        sv("desc", p.getDeviceDescription());
        sv("serial", p.getSerialNumber());
        sv("hw", p.getHardwareVersion());
        sv("sw", p.getSoftwareVersion());
        touch(p.getVendorData(), p.getVendorDataLength());
        view(o, "vendor", p, p.getVendorData(), p.getVendorDataLength());
        sv("vendorView", p.getVendorDataStringView());
    }
    else if (kind == "if")
    {
        InterfacePayload p(data, size);
        (void) p.getInterfaceId();
        (void) p.getMsgTotalRx();
        (void) p.getMsgTotalTx();
        (void) p.getMsgDroppedRx();
        (void) p.getMsgDroppedTx();
        (void) p.getErrorsTotalRx();
        (void) p.getErrorsTotalTx();
        (void) p.getInterfaceType();
        (void) p.getInterfaceStatus();
        (void) p.getFeatureSupportBitmask();
        touch(p.getStreamIds(), p.getStreamIdsCount());
        view(o, "streams", p, p.getStreamIds(), p.getStreamIdsCount());
        touch(p.getVendorData(), p.getVendorDataLength());
        view(o, "vendor", p, p.getVendorData(), p.getVendorDataLength());
    }
    o.endArr();
}

bool isValid(const std::string& kind, const uint8_t* d, size_t n)
{
    if (kind == "can") return CanPayload::isValidPayload(d, n);
    if (kind == "canfd") return CanFdPayload::isValidPayload(d, n);
    if (kind == "lin") return LinPayload::isValidPayload(d, n);
    if (kind == "eth") return EthernetPayload::isValidPayload(d, n);
    if (kind == "analog") return AnalogPayload::isValidPayload(d, n);
    if (kind == "cm") return CaptureModulePayload::isValidPayload(d, n);
    if (kind == "if") return InterfacePayload::isValidPayload(d, n);
    return false;
}
}

void runVld(const json& ep)
{
    long k = 0;
    for (const auto& op : ep.at("ops"))
    {
        noteOp(k++);
        const std::string name = op.at("op");
        Out o;
        if (name == "valid")
        {
            const std::string kind = op.at("kind");
            const auto bytes = bytesOf(op.at("bytes"));
            Guarded g(bytes);
            const bool ok = isValid(kind, g.ptr, bytes.size());
            o.obj().kv("e", "vld.payload").kv("kind", kind).bytes("bytes", bytes).kv("accepted", ok);
            if (ok)
                accessors(o, kind, g.ptr, bytes.size());
            o.end();
        }
        else if (name == "validmsg")
        {
            // message level: header + payload as it sits in a frame
            const auto bytes = bytesOf(op.at("bytes"));
            const int mt = op.value("mt", 1);
            Guarded g(bytes);
            const bool ok = Packet::isValidPacket(g.ptr, bytes.size());
            o.obj().kv("e", "vld.message").kv("mt", mt).bytes("bytes", bytes).kv("accepted", ok);
            if (ok)
            {
                Packet p(static_cast<CmpHeader::MessageType>(mt), g.ptr, bytes.size());
                o.key("pkt");
                snapPacket(o, p);
                // a packet reported valid is used through its typed payload class: every accessor, on the packet's own bytes
                static const std::map<uint32_t, const char*> kinds = {{PayloadType::can, "can"},       {PayloadType::canFd, "canfd"},
                                                                      {PayloadType::lin, "lin"},       {PayloadType::ethernet, "eth"},
                                                                      {PayloadType::analog, "analog"}, {PayloadType::cmStatMsg, "cm"},
                                                                      {PayloadType::ifStatMsg, "if"}};
                const auto it = kinds.find(p.getPayload().getType().getType());
                if (p.isValid() && it != kinds.end())
                {
                    o.kv("kind", it->second);
                    accessors(o, it->second, p.getPayload().getRawPayload(), p.getPayload().getLength());
                }
            }
            o.end();
        }
        else
            o.obj().kv("e", "unknown-op").kv("op", name).end();
        emitLine(o.str());
    }
}
