"""Stages (model configurations, generators, trace specifications) per property."""
import os
import sys

from . import core

sys.path.insert(0, os.path.join(core.VERIF, 'gen'))
import enc_gen  # noqa: E402

COMMON_ASSUMPTIONS = [
    'TLC explores the stated bounded configurations exhaustively; beyond them cases are sampled (seeded).',
    'The executor (harness/exec) logs faithfully what the public API returned; it contains no oracle.',
    'spec/Frames.tla, spec/Payloads.tla, spec/Layout.tla are my transcription of the ASAM CMP / TECMP layouts (trusted base).',
]


def match_known(pid, known, case, stage):
    """Return the known finding (known_findings.json) that explains this failing episode, or None.
    A finding is identified by the specific input class that fails, never by the property alone."""
    for k in known:
        m = k.get('match', {})
        if m.get('comp') and m['comp'] != case.get('comp'):
            continue
        if m.get('id_prefix') and not str(case.get('id', '')).startswith(m['id_prefix']):
            continue
        if m.get('op_field'):
            f, v = m['op_field']
            if not any(op.get(f) == v for op in case.get('ops', [])):
                continue
        return k
    return None


# ------------------------------------------------------------------ encoder
def _enc_ops(c):
    return [op for op in c.get('ops', []) if op.get('op') == 'encode']


def _fits(p, ctx):
    return 16 + len(p['pl']) <= ctx['max'] - 8


def nt_enc_any(c):
    return any(op['batch'] for op in _enc_ops(c))


def nt_enc_segmented(c):
    return any(any(not _fits(p, op['ctx']) for p in op['batch']) for op in _enc_ops(c))


def nt_enc_hist(c):
    return len(c.get('ops', [])) >= 3 and nt_enc_any(c)


def nt_enc_later_segmented(c):
    ops = _enc_ops(c)
    return any(any(not _fits(p, op['ctx']) for p in op['batch']) for op in ops[1:])


def enc_random(tier, seed, path):
    n = 300 if tier == 'quick' else 6000
    return enc_gen.write(path, enc_gen.gen(seed, n, 'r', big=True))


def enc_wrap(tier, seed, path):
    eps = [enc_gen.wrap_history('w', 3, 64000, 'a'), enc_gen.wrap_history('w', 2, 65535, 'b'),
           enc_gen.wrap_history('w', 2, 65534 - 1000, 'c')]
    if tier == 'thorough':
        eps.append(enc_gen.wrap_history('w', 70, 0, 'full'))
    return enc_gen.write(path, eps)


def enc_hist_random(tier, seed, path):
    n = 200 if tier == 'quick' else 3000
    return enc_gen.write(path, enc_gen.gen(seed + 1000, n, 'q', big=False))


ENC_BATCH = {'kind': 'mc', 'name': 'encbatch', 'module': 'MC_Enc', 'comp': 'enc', 'trace': 'TraceEnc',
             'cfg': {'quick': 'MC_EncBatch_quick.cfg', 'thorough': 'MC_EncBatch_thorough.cfg'},
             'invariants': ['InvC01', 'InvC07', 'InvC08', 'InvC09', 'InvC10']}
ENC_HIST = {'kind': 'mc', 'name': 'enchist', 'module': 'MC_Enc', 'comp': 'enc', 'trace': 'TraceEnc',
            'cfg': {'quick': 'MC_EncHist_quick.cfg', 'thorough': 'MC_EncHist_thorough.cfg'},
            'invariants': ['InvC01', 'InvC07', 'InvC08', 'InvC09', 'InvC10']}
ENC_RANDOM = {'kind': 'gen', 'name': 'encrandom', 'gen': enc_random, 'comp': 'enc', 'trace': 'TraceEnc'}
ENC_WRAP = {'kind': 'gen', 'name': 'encwrap', 'gen': enc_wrap, 'comp': 'enc', 'trace': 'TraceEnc'}
ENC_HRANDOM = {'kind': 'gen', 'name': 'enchrandom', 'gen': enc_hist_random, 'comp': 'enc', 'trace': 'TraceEnc'}

PROPS = {
    'C01': {'level': 'model_checking', 'stages': [ENC_BATCH, ENC_RANDOM], 'nontrivial_case': nt_enc_any,
            'rule': 'MC_Enc/EncBatch: every batch of 0..MaxPk packets over LenSet x MtSet x every context of MaxSet x MinSet, '
                    'encoder spec composed with decoder spec (InvC01), each enumerated case replayed on the real encoder and '
                    'decoder and judged by TraceEnc (RoundTripOK on logged input and decoded packets); plus seeded random '
                    'batches of all eight payload kinds, payloads up to 65535 bytes. Non-trivial = distinct episodes with a '
                    'non-empty batch.',
            'assumptions': COMMON_ASSUMPTIONS},
    'C07': {'level': 'model_checking', 'stages': [ENC_BATCH, ENC_RANDOM], 'nontrivial_case': nt_enc_any,
            'rule': 'as C01; monitor FramesWellFormed (independent frame walker of spec/Frames.tla) on the logged frames. '
                    'Non-trivial = distinct episodes with a non-empty batch; counters give how many calls needed segmentation, aggregation, padding.',
            'assumptions': COMMON_ASSUMPTIONS},
    'C08': {'level': 'model_checking', 'stages': [ENC_BATCH, ENC_RANDOM], 'nontrivial_case': nt_enc_segmented,
            'rule': 'as C01 with lengths on both sides of every fit/no-fit boundary; monitor SegRules on the logged frames. '
                    'Non-trivial = distinct episodes in which at least one packet needed segmentation.',
            'assumptions': COMMON_ASSUMPTIONS},
    'C09': {'level': 'model_checking', 'stages': [ENC_HIST, ENC_WRAP, ENC_HRANDOM], 'nontrivial_case': nt_enc_hist,
            'rule': 'MC_Enc/EncHist: every sequence of up to MaxOps operations {setDeviceId, setStreamId, restart, encode} '
                    '(edge dump: one path per transition), a 70000-frame history that wraps the counter, seeded random '
                    'histories; monitor CounterRule. Non-trivial = distinct histories of at least two operations after init containing an encode call (wrap_calls counts wrap crossings).',
            'assumptions': COMMON_ASSUMPTIONS},
    'C10': {'level': 'model_checking', 'stages': [ENC_HIST, ENC_HRANDOM], 'nontrivial_case': nt_enc_later_segmented,
            'rule': 'as C09; every encode event also logs the frames of a fresh encoder with the same ids; monitor '
                    'SameUpToShift. Non-trivial = distinct histories whose second or later encode call needed segmentation.',
            'assumptions': COMMON_ASSUMPTIONS},
}
