"""Stages (model configurations, generators, trace specifications) per property."""
import os
import sys

from . import core

sys.path.insert(0, os.path.join(core.VERIF, 'gen'))
import enc_gen  # noqa: E402
import dec_gen  # noqa: E402
import obj_gen  # noqa: E402
import st_gen  # noqa: E402
import val_gen  # noqa: E402
import vld_gen  # noqa: E402
import tlcdump  # noqa: E402
import hashlib  # noqa: E402
import json  # noqa: E402

NOT_APPLICABLE = {}

COMMON_ASSUMPTIONS = [
    'TLC explores the stated bounded configurations exhaustively; beyond them cases are sampled (seeded).',
    'The executor (harness/exec) logs faithfully what the public API returned; it contains no oracle.',
    'spec/Frames.tla, spec/Payloads.tla, spec/Layout.tla are my transcription of the ASAM CMP / TECMP layouts (trusted base).',
]


def match_known(pid, known, case, stage):
    """Return the known finding (known_findings.json) that explains this failing episode, or None.
    A finding is identified by the specific input class that fails, never by the property alone."""
    for k in known:
        m = k.get('match', {})
        if m.get('comp') and m['comp'] != case.get('comp'):
            continue
        if m.get('id_prefix') and not str(case.get('id', '')).startswith(m['id_prefix']):
            continue
        if m.get('op_field'):
            f, v = m['op_field']
            if not any(op.get(f) == v for op in case.get('ops', [])):
                continue
        return k
    return None


# ------------------------------------------------------------------ encoder
def _enc_ops(c):
    return [op for op in c.get('ops', []) if op.get('op') == 'encode']


def _fits(p, ctx):
    return 16 + len(p['pl']) <= ctx['max'] - 8


def nt_enc_any(c):
    return any(op['batch'] for op in _enc_ops(c))


def nt_enc_segmented(c):
    return any(any(not _fits(p, op['ctx']) for p in op['batch']) for op in _enc_ops(c))


def nt_enc_hist(c):
    return len(c.get('ops', [])) >= 3 and nt_enc_any(c)


def nt_enc_later_segmented(c):
    ops = _enc_ops(c)
    return any(any(not _fits(p, op['ctx']) for p in op['batch']) for op in ops[1:])


def enc_random(tier, seed, path):
    n = 300 if tier == 'quick' else 6000
    ext = list(enc_gen.extremes())
    return enc_gen.write(path, list(enc_gen.gen(seed, n, 'r', big=True)) + (ext if tier == 'thorough' else ext[seed % 5::5]))


def enc_wrap(tier, seed, path):
    eps = [enc_gen.wrap_history('w', 3, 64000, 'a'), enc_gen.wrap_history('w', 2, 65535, 'b'),
           enc_gen.wrap_history('w', 2, 65534 - 1000, 'c')]
    if tier == 'thorough':
        eps.append(enc_gen.wrap_history('w', 70, 0, 'full'))
    return enc_gen.write(path, eps)


def enc_hist_random(tier, seed, path):
    n = 200 if tier == 'quick' else 3000
    return enc_gen.write(path, enc_gen.gen(seed + 1000, n, 'q', big=False, hist=True))


ENC_BATCH = {'kind': 'mc', 'name': 'encbatch', 'module': 'MC_Enc', 'comp': 'enc', 'trace': 'TraceEnc',
             'cfg': {'quick': 'MC_EncBatch_quick.cfg', 'thorough': 'MC_EncBatch_thorough.cfg'},
             'invariants': ['InvC01', 'InvC07', 'InvC08', 'InvC09', 'InvC10']}
ENC_HIST = {'kind': 'mc', 'name': 'enchist', 'module': 'MC_Enc', 'comp': 'enc', 'trace': 'TraceEnc',
            'cfg': {'quick': 'MC_EncHist_quick.cfg', 'thorough': 'MC_EncHist_thorough.cfg'},
            'invariants': ['InvC01', 'InvC07', 'InvC08', 'InvC09', 'InvC10']}
# every history (not only every transition) of a small alphabet: reaches state the specification does not have
ENC_PATHS = {'kind': 'mc', 'name': 'encpaths', 'module': 'MC_Enc', 'comp': 'enc', 'trace': 'TraceEnc',
             'cfg': {'quick': 'MC_EncPaths_quick.cfg', 'thorough': 'MC_EncPaths_thorough.cfg'},
             'invariants': ['InvC09', 'InvC10']}
# every history of 3 (4) operations over a richer alphabet: calls that differ in frame sizes, padding, payload length (fits /
# needs segmentation) and message type follow each other in every order (state kept between calls, round6c-2)
ENC_PAIRS = {'kind': 'mc', 'name': 'encpairs', 'module': 'MC_Enc', 'comp': 'enc', 'trace': 'TraceEnc',
             'cfg': {'quick': 'MC_EncPairs_quick.cfg', 'thorough': 'MC_EncPairs_thorough.cfg'},
             'invariants': ['InvC07', 'InvC08', 'InvC09', 'InvC10']}
ENC_RANDOM = {'kind': 'gen', 'name': 'encrandom', 'gen': enc_random, 'comp': 'enc', 'trace': 'TraceEnc'}
ENC_WRAP = {'kind': 'gen', 'name': 'encwrap', 'gen': enc_wrap, 'comp': 'enc', 'trace': 'TraceEnc'}
ENC_HRANDOM = {'kind': 'gen', 'name': 'enchrandom', 'gen': enc_hist_random, 'comp': 'enc', 'trace': 'TraceEnc'}

# ------------------------------------------------------------------ objects
def layout_table():
    """The field tables of spec/Layout.tla as JSON, printed by TLC (cached on the hash of the module)."""
    h = hashlib.sha1(open(os.path.join(core.SPEC, 'Layout.tla'), 'rb').read() +
                     open(os.path.join(core.SPEC, 'MC_Layout.tla'), 'rb').read()).hexdigest()[:12]
    p = os.path.join(core.OUT, 'layout_table.%s.json' % h)
    if not os.path.exists(p):
        logp, _ = core.mc('MC_Layout', 'MC_LayoutTable.cfg', 'layouttable')
        t = list(tlcdump.printed_json(logp, 'TABLE'))
        if not t:
            raise core.MachineryError('MC_Layout did not print the field tables')
        json.dump(t[0], open(p, 'w'))
    return json.load(open(p))


def obj_sweeps(tier, seed, path):
    t = layout_table()
    return obj_gen.write(path, list(obj_gen.sweeps(t, seed, tier)) + list(obj_gen.chains(t, seed, tier)) +
                         list(obj_gen.rawhdrs(seed, 10 if tier == 'quick' else 200)))


def obj_builds(tier, seed, path):
    return obj_gen.write(path, list(obj_gen.builds(layout_table(), seed, tier)) + list(obj_gen.rebuilds_same_size(seed)))


def nt_obj_sets(c):
    return sum(1 for op in c.get('ops', []) if op.get('op') == 'set') >= 2


def nt_obj_build_used(c):
    ops = c.get('ops', [])
    return sum(1 for op in ops if op.get('op') == 'setData') >= 2 or (ops and ops[0].get('op') == 'load')


OBJ_LAYOUT = {'kind': 'mc', 'name': 'layout', 'module': 'MC_Layout', 'comp': 'obj', 'trace': 'TraceObj',
              'cfg': {'quick': 'MC_Layout.cfg', 'thorough': 'MC_Layout.cfg'}, 'invariants': ['InvPutGet', 'TableOK']}
OBJ_SWEEPS = {'kind': 'gen', 'name': 'sweeps', 'gen': obj_sweeps, 'comp': 'obj', 'trace': 'TraceObj'}
OBJ_BUILDERS = {'kind': 'mc', 'name': 'builders', 'module': 'MC_Builders', 'comp': 'obj', 'trace': 'TraceObj',
                'cfg': {'quick': 'MC_Builders_quick.cfg', 'thorough': 'MC_Builders_thorough.cfg'}, 'invariants': ['InvC13']}
OBJ_BUILDS = {'kind': 'gen', 'name': 'randombuilds', 'gen': obj_builds, 'comp': 'obj', 'trace': 'TraceObj'}


# ------------------------------------------------------------------ status
def st_random(tier, seed, path):
    return st_gen.write(path, st_gen.gen(seed + 23, 20 if tier == 'quick' else 200, 300 if tier == 'quick' else 2000))


def nt_st(c):
    ops = c.get('ops', [])
    return any(o.get('op') in ('removeDev', 'removeIf', 'clear') for o in ops) and any(o.get('op') == 'update' for o in ops)


ST_PROBE = {'probe': {'devs': [1, 2, 3, 4], 'ifs': [[0, 0, 0, 1], [0, 0, 0, 2], [0, 0, 0, 3]]}}
ST_PROBE_SYS = {'probe': {'devs': [17, 18, 19, 1], 'ifs': [[0, 0, 0, 1], [0, 0, 0, 2], [0, 0, 0, 3]]}}
ST_MC = {'kind': 'mc', 'tree': True, 'name': 'status', 'module': 'MC_Status', 'comp': 'st', 'trace': 'TraceStatus',
         'cfg': {'quick': 'MC_Status_quick.cfg', 'thorough': 'MC_Status_thorough.cfg'}, 'extra': ST_PROBE,
         'invariants': ['InvC16']}
ST_WALKS = dict(ST_MC, name='statuswalks', simulate={'quick': (600, 40), 'thorough': (8000, 60)})
# the composed system (encoders -> lossy link -> decoder -> tracker): the tracker under real decoded traffic
ST_SYS = {'kind': 'mc', 'tree': True, 'name': 'system', 'module': 'MC_Sys', 'comp': 'st', 'trace': 'TraceSys',
          'cfg': {'quick': 'MC_Sys_quick.cfg', 'thorough': 'MC_Sys_thorough.cfg'}, 'extra': ST_PROBE_SYS,
          'invariants': ['SysTracker', 'SysPending', 'SysShape']}
ST_SYS_WALKS = dict(ST_SYS, name='systemwalks', simulate={'quick': (200, 45), 'thorough': (3000, 45)},
                    cfg={'quick': 'MC_Sys_walks.cfg', 'thorough': 'MC_Sys_walks.cfg'})
ST_RANDOM = {'kind': 'gen', 'name': 'randomstatus', 'gen': st_random, 'comp': 'st', 'trace': 'TraceStatus'}


# ------------------------------------------------------------------ validation
def _dec_frames_proxy(tier, seed, path):
    return dec_frames(tier, seed, path)


def vld_random(tier, seed, path):
    return vld_gen.write(path, vld_gen.buffers(seed + 41, 60 if tier == 'quick' else 1500))


def nt_vld(c):
    return len(c.get('ops', [])) >= 1


VLD_MC = {'kind': 'mc', 'name': 'views', 'module': 'MC_Views', 'comp': 'vld', 'trace': 'TraceValid', 'variant': 'asan',
          'cfg': {'quick': 'MC_Views.cfg', 'thorough': 'MC_Views.cfg'}, 'invariants': ['InvC03']}
VLD_RANDOM = {'kind': 'gen', 'name': 'randombuffers', 'gen': vld_random, 'comp': 'vld', 'trace': 'TraceValid', 'variant': 'asan'}
VLD_DEC = {'kind': 'gen', 'name': 'decodedframes', 'gen': _dec_frames_proxy, 'comp': 'dec', 'trace': 'TraceDec', 'variant': 'asan'}


# ------------------------------------------------------------------ concurrency / definedness
def _mixed(seed, n, big=False):
    """Episodes of every component (encoder, decoder incl. reassembly and TECMP, status, builders)."""
    import itertools
    srcs = [enc_gen.gen(seed, n, 'e', big=big), dec_gen.streams(seed + 1, n, 's', big=big), dec_gen.frames(seed + 2, n, 'c'),
            dec_gen.tecmp(seed + 3, n, 't'), st_gen.gen(seed + 4, n, 120, 'u'), obj_gen.builds(layout_table(), seed + 5, 'quick', 'b'),
            dec_gen.streams(seed + 6, n, 'f', faults=True, big=False), val_gen.gen(seed + 7, n, 'v', 'packet'),
            vld_gen.buffers(seed + 8, n, 'w'), dec_gen.encoder_streams(seed + 9, n, 'g', faults=True)]
    out = []
    for tup in itertools.zip_longest(*[itertools.islice(g, n) for g in srcs]):
        out += [e for e in tup if e is not None]
    return out


def conc_workload(tier, seed, path):
    import random
    rng = random.Random(seed + 51)
    runs = 20 if tier == 'quick' else 200
    eps = []
    for r in range(runs):
        nth = rng.choice([2, 2, 4, 8, 16])
        # every thread first runs one episode of every component (after a common start), so that all threads are inside the
        # same library functions at the same time; then its share of a shuffled pool
        for t in range(nth):
            sd = seed * 1000 + r * 17 + t
            common = list(dec_gen.tecmp(sd, 1, 't')) + list(obj_gen.builds(layout_table(), sd, 'quick', 'b'))[:3] + \
                list(st_gen.gen(sd, 1, 40, 'u')) + list(enc_gen.gen(sd, 1, 'e', big=False)) + list(val_gen.gen(sd, 1, 'v', 'packet'))
            for e in common:
                e = dict(e)
                e['run'], e['thread'] = r, t
                e['id'] = 'r%d.t%d.c.%s' % (r, t, e['id'])
                eps.append(e)
        pool = _mixed(seed * 1000 + r, 2)
        rng.shuffle(pool)
        for k, e in enumerate(pool[:nth * 2]):
            e = dict(e)
            e['run'], e['thread'] = r, k % nth
            e['id'] = 'r%d.t%d.%s' % (r, k % nth, e['id'])
            eps.append(e)
    return enc_gen.write(path, eps)


def perturb_workload(tier, seed, path):
    eps = _mixed(seed + 61, 20 if tier == 'quick' else 300, big=(tier != 'quick'))
    return enc_gen.write(path, eps)


def memcheck_workload(tier, seed, path):
    eps = _mixed(seed + 71, 4 if tier == 'quick' else 60)
    return enc_gen.write(path, eps)


def nt_any(c):
    return len(c.get('ops', [])) >= 2


CONC_MC = {'kind': 'mc', 'name': 'noninterference', 'module': 'Concurrent', 'comp': '-', 'trace': '-', 'model_only': True,
           'cfg': {'quick': 'Concurrent.cfg', 'thorough': 'Concurrent.cfg'}, 'invariants': ['NonInterference']}
CONC_RUN = {'kind': 'gen', 'name': 'threads-tsan', 'gen': conc_workload, 'comp': '*', 'trace': 'TraceSame', 'variant': 'tsan',
            'mode': 'threads'}
PERTURB_RUN = {'kind': 'gen', 'name': 'heap-patterns', 'gen': perturb_workload, 'comp': '*', 'trace': 'TraceSame', 'mode': 'perturb'}
MEMCHECK_RUN = {'kind': 'gen', 'name': 'memcheck', 'gen': memcheck_workload, 'comp': '*', 'trace': 'TraceSame', 'mode': 'perturb',
                'memcheck': True, 'per_part': 2}


# ------------------------------------------------------------------ values
def val_random(tier, seed, path):
    n = 150 if tier == 'quick' else 3000
    eps = list(val_gen.gen(seed + 31, n, 'p', 'packet')) + list(val_gen.gen(seed + 32, n // 3, 'y', 'payload')) + \
        list(val_gen.gen(seed + 33, n // 3, 't', 'tecmp')) + \
        list(val_gen.bit_sweep(seed + 34, 4 if tier == 'quick' else 40, 'e', 'packet')) + \
        list(val_gen.bit_sweep(seed + 35, 2 if tier == 'quick' else 10, 'f', 'payload')) + \
        list(val_gen.bit_sweep(seed + 36, 2 if tier == 'quick' else 10, 'g', 'tecmp'))
    return val_gen.write(path, eps)


def nt_val(c):
    return any(o.get('op') in ('assign', 'massign', 'copy', 'move') for o in c.get('ops', []))


VAL_MC = {'kind': 'mc', 'name': 'values', 'module': 'MC_Values', 'comp': 'val', 'trace': 'TraceVal',
          'cfg': {'quick': 'MC_Values_thorough.cfg', 'thorough': 'MC_Values_thorough.cfg'}, 'invariants': ['TypeOK']}
VAL_RANDOM = {'kind': 'gen', 'name': 'randomvalues', 'gen': val_random, 'comp': 'val', 'trace': 'TraceVal', 'variant': 'asan'}


# ------------------------------------------------------------------ decoder
def _dec_ops(c):
    return [op for op in c.get('ops', []) if op.get('op') == 'decode']


def nt_dec_any(c):
    return len(_dec_ops(c)) >= 2


def nt_dec_segmented(c):
    return any(len(op['in']) > 20 and (op['in'][20] & 0x0C) for op in _dec_ops(c))


def ntop_segment(op):
    return op.get('op') == 'decode' and len(op['in']) > 20 and (op['in'][20] & 0x0C) != 0


def ntop_fault(op):
    return op.get('fault') not in (None, 'none') or op.get('meta', {}).get('fault') not in (None, 'none')


def ntop_decode(op):
    return op.get('op') == 'decode'


def nt_dec_fault(c):
    return any(op.get('fault') or op.get('meta', {}).get('fault') not in (None, 'none') for op in c.get('ops', []))


def dec_streams(tier, seed, path):
    n = 40 if tier == 'quick' else 1500
    return dec_gen.write(path, list(dec_gen.streams(seed, n, 's', big=(tier != 'quick'))) +
                         list(dec_gen.encoder_streams(seed + 3, n, 'e')) + list(dec_gen.large(seed))[:(4 if tier == 'thorough' else 2)] +
                         list(dec_gen.slow_stream(seed, counts=(300, 1300) if tier == 'quick' else (300, 1300, 2100, 5000, 40000))))


def dec_faults(tier, seed, path):
    n = 60 if tier == 'quick' else 3000
    return dec_gen.write(path, list(dec_gen.streams(seed + 7, n, 'f', faults=True, big=False)) +
                         list(dec_gen.encoder_streams(seed + 8, n, 'g', faults=True)) +
                         list(dec_gen.large_after_fault(seed))[:(4 if tier == 'thorough' else 2)])


def dec_anyhist(tier, seed, path):
    n = 150 if tier == 'quick' else 6000
    return dec_gen.write(path, dec_gen.anyhist(seed + 13, n, 'a', tecmp=True))


def dec_frames(tier, seed, path):
    n = 300 if tier == 'quick' else 10000
    import itertools
    return dec_gen.write(path, itertools.chain(dec_gen.bit_sweep(seed + 18, 'bit'), dec_gen.frames(seed + 17, n, 'c')))


def dec_tecmp(tier, seed, path):
    return dec_gen.write(path, dec_gen.tecmp(seed + 19, 80 if tier == 'quick' else 3000, 't'))


def nt_tecmp(c):
    return any(len(op.get('in', [])) >= 29 and op['in'][0] == 0 and op['in'][5] in (1, 2, 3) for op in c.get('ops', []))


def dec_arbitrary(tier, seed, path):
    return dec_gen.write(path, dec_gen.arbitrary(seed + 29, 150 if tier == 'quick' else 5000, 'x'))


def dec_frames_c02(tier, seed, path):
    n = 300 if tier == 'quick' else 10000
    return dec_gen.write(path, dec_gen.frames(seed + 18, n, 'c'))


def dec_arbitrary_plain(tier, seed, path):
    return dec_gen.write(path, dec_gen.arbitrary(seed + 30, 150 if tier == 'quick' else 5000, 'y'))


DEC_INV = ['InvC05', 'InvC06', 'InvPendingIsRun']
DEC_REASM = {'kind': 'mc', 'tree': True, 'name': 'reassembly', 'module': 'MC_Link', 'comp': 'dec', 'trace': 'TraceDec',
             'cfg': {'quick': 'MC_Reassembly_quick.cfg', 'thorough': 'MC_Reassembly_thorough.cfg'},
             'extra': {'solo': True}, 'invariants': DEC_INV}
DEC_FAULTS = {'kind': 'mc', 'tree': True, 'name': 'faults', 'module': 'MC_Link', 'comp': 'dec', 'trace': 'TraceDec',
              'cfg': {'quick': 'MC_Faults_quick.cfg', 'thorough': 'MC_Faults_thorough.cfg'},
              'extra': {'solo': True}, 'invariants': DEC_INV}
DEC_ANY = {'kind': 'mc', 'tree': True, 'name': 'anyhistory', 'module': 'MC_DecAny', 'comp': 'dec', 'trace': 'TraceDec',
           'cfg': {'quick': 'MC_DecAny_quick.cfg', 'thorough': 'MC_DecAny_thorough.cfg'},
           'extra': {'solo': True}, 'invariants': ['InvC17', 'InvC18', 'InvC02']}
DEC_MCFRAMES = {'kind': 'mc', 'name': 'frames', 'module': 'MC_Frames', 'comp': 'dec', 'trace': 'TraceDec',
                'cfg': {'quick': 'MC_Frames_quick.cfg', 'thorough': 'MC_Frames_thorough.cfg'},
                'invariants': ['InvC04', 'InvSupersede', 'InvC02']}
DEC_MCTECMP = {'kind': 'mc', 'name': 'tecmp', 'module': 'MC_Tecmp', 'comp': 'dec', 'trace': 'TraceDec', 'variant': 'asan',
               'cfg': {'quick': 'MC_Tecmp_quick.cfg', 'thorough': 'MC_Tecmp_thorough.cfg'}, 'invariants': ['InvC15']}
DEC_RTECMP = {'kind': 'gen', 'name': 'randomtecmp', 'gen': dec_tecmp, 'comp': 'dec', 'trace': 'TraceDec', 'variant': 'asan'}
DEC_MALFORMED = {'kind': 'mc', 'name': 'malformed', 'module': 'MC_Frames', 'comp': 'dec', 'trace': 'TraceDec', 'variant': 'asan',
                 'cfg': {'quick': 'MC_Malformed_quick.cfg', 'thorough': 'MC_Malformed_thorough.cfg'},
                 'extra': {'recheck': True}, 'invariants': ['InvC02', 'InvC04']}
DEC_ARBITRARY = {'kind': 'gen', 'name': 'arbitrary-asan', 'gen': dec_arbitrary, 'comp': 'dec', 'trace': 'TraceDec', 'variant': 'asan'}
DEC_FRAMES_ASAN = {'kind': 'gen', 'name': 'randomframes-asan', 'gen': dec_frames_c02, 'comp': 'dec', 'trace': 'TraceDec', 'variant': 'asan'}
DEC_ANY_ASAN = dict(DEC_ANY, name='anyhistory-asan', variant='asan')
DEC_ARBITRARY_P = {'kind': 'gen', 'name': 'arbitrary-guardpages', 'gen': dec_arbitrary_plain, 'comp': 'dec', 'trace': 'TraceDec'}
DEC_ANY_WALKS = dict(DEC_ANY, name='anyhistorywalks', simulate={'quick': (16, 30), 'thorough': (160, 40)},
                     cfg={'quick': 'MC_DecAny_walks.cfg', 'thorough': 'MC_DecAny_walks.cfg'})
DEC_LINK_WALKS = dict(DEC_FAULTS, name='faultwalks', simulate={'quick': (32, 30), 'thorough': (320, 40)},
                      cfg={'quick': 'MC_Link_walks.cfg', 'thorough': 'MC_Link_walks.cfg'})
DEC_APALACHE = {'kind': 'proof', 'name': 'pending-bound-inductive', 'script': 'apalache/run.sh', 'obligations': 2,
                'statement': 'ApaPending.tla: IndInv (state only for open runs; bytes held <= segment bytes received) is inductive: '
                             'Init => IndInv and IndInv /\\ Next => IndInv\', for histories of any length and segments of any size '
                             '(record-level abstraction of spec/Decoder.tla + the ghost of spec/DecProps.tla)'}
DEC_APALACHE_NOMIX = {'kind': 'proof', 'name': 'no-mixing-inductive', 'script': 'apalache/run.sh', 'module': 'ApaNoMix', 'obligations': 2,
                      'statement': 'ApaNoMix.tla: for every well-formed stream of 7 frames with pairwise different counters whose frames arrive in any '
                                   'order, any number of times, with any of them missing (history of any length), the decoder rule of '
                                   'spec/Decoder.tla keeps in an open entry only the first segment of one message and its directly following '
                                   'segments, and delivers only whole messages of the stream (IndInv is inductive: Init => IndInv, '
                                   'IndInv /\\ Next => IndInv\'); a copy with the counter test weakened is refuted'}
DEC_STREAMS = {'kind': 'gen', 'name': 'streams', 'gen': dec_streams, 'comp': 'dec', 'trace': 'TraceDec'}
DEC_RFAULTS = {'kind': 'gen', 'name': 'randomfaults', 'gen': dec_faults, 'comp': 'dec', 'trace': 'TraceDec'}
DEC_RANY = {'kind': 'gen', 'name': 'randomhistory', 'gen': dec_anyhist, 'comp': 'dec', 'trace': 'TraceDec'}
DEC_FRAMES = {'kind': 'gen', 'name': 'randomframes', 'gen': dec_frames, 'comp': 'dec', 'trace': 'TraceDec'}

# ------------------------------------------------------------------ the repository's own tests as recorded behaviours
# harness/suite/suite_wrap.cpp records every call the 294 gtest cases make to Encoder / Decoder / Status /
# TECMP::Decoder (ld --wrap, no source change); the ordinary trace specifications judge them: every monitor at every
# call of the suite's own scenarios, not only what the tests assert.
SUITE_ENC = {'kind': 'suite', 'name': 'suite-recorded', 'comp': 'enc', 'trace': 'TraceEnc'}
SUITE_DEC = {'kind': 'suite', 'name': 'suite-recorded', 'comp': 'dec', 'trace': 'TraceDec'}
SUITE_ST = {'kind': 'suite', 'name': 'suite-recorded', 'comp': 'st', 'trace': 'TraceStatus'}
EXAMPLE_ENC = dict(SUITE_ENC, name='example-recorded', program='example')
EXAMPLE_DEC = dict(SUITE_DEC, name='example-recorded', program='example')
EXAMPLE_ST = dict(SUITE_ST, name='example-recorded', program='example')
SUITE_RULE = (" Also: the calls of the repository's own gtest suite on this component, recorded at the public entry points "
              "(ld --wrap) and judged by the same trace specification; likewise the flows of example/main.cpp where it uses the component.")

PROPS = {
    'C01': {'level': 'model_checking', 'stages': [ENC_BATCH, ENC_WRAP, ENC_RANDOM, ENC_HRANDOM, SUITE_ENC, EXAMPLE_ENC], 'nontrivial_case': nt_enc_any,
            'rule': 'MC_Enc/EncBatch: every batch of 0..MaxPk packets over LenSet x MtSet x every context of MaxSet x MinSet, '
                    'encoder spec composed with decoder spec (InvC01), each enumerated case replayed on the real encoder and '
                    'decoder and judged by TraceEnc (RoundTripOK on logged input and decoded packets); plus seeded random '
                    'batches of all eight payload kinds, payloads up to 65535 bytes. Non-trivial = distinct episodes with a '
                    'non-empty batch.',
            'assumptions': COMMON_ASSUMPTIONS},
    'C07': {'level': 'model_checking', 'stages': [ENC_BATCH, ENC_RANDOM, ENC_PAIRS, ENC_HRANDOM, SUITE_ENC, EXAMPLE_ENC], 'nontrivial_case': nt_enc_any,
            'rule': 'as C01; monitor FramesWellFormed (independent frame walker of spec/Frames.tla) on the logged frames. '
                    'Also on encoders with a history (MC_Enc/EncPairs: every history of 3 (4) calls over frame sizes x padding x lengths x message types; seeded random histories whose '
                    'calls change the frame sizes, message types and ids between calls). '
                    'Non-trivial = distinct episodes with a non-empty batch; counters give how many calls needed segmentation, aggregation, padding.',
            'assumptions': COMMON_ASSUMPTIONS},
    'C08': {'level': 'model_checking', 'stages': [ENC_BATCH, ENC_WRAP, ENC_RANDOM, ENC_PAIRS, ENC_HRANDOM, SUITE_ENC], 'nontrivial_case': nt_enc_segmented,
            'rule': 'as C01 with lengths on both sides of every fit/no-fit boundary; monitor SegRules on the logged frames; also on encoders with a history (as C07). '
                    'Non-trivial = distinct episodes in which at least one packet needed segmentation.',
            'assumptions': COMMON_ASSUMPTIONS},
    'C09': {'level': 'model_checking', 'stages': [ENC_HIST, ENC_PATHS, ENC_PAIRS, ENC_WRAP, ENC_HRANDOM, SUITE_ENC], 'nontrivial_case': nt_enc_hist,
            'rule': 'MC_Enc/EncHist: every sequence of up to MaxOps operations {setDeviceId, setStreamId, restart, encode} '
                    '(edge dump: one path per transition), a 70000-frame history that wraps the counter, seeded random '
                    'histories; monitor CounterRule. Non-trivial = distinct histories of at least two operations after init containing an encode call (wrap_calls counts wrap crossings).',
            'assumptions': COMMON_ASSUMPTIONS},
    'C10': {'level': 'model_checking', 'stages': [ENC_HIST, ENC_PATHS, ENC_PAIRS, ENC_WRAP, ENC_HRANDOM, SUITE_ENC], 'nontrivial_case': nt_enc_later_segmented,
            'rule': 'as C09; every encode event also logs the frames of a fresh encoder with the same ids; monitor '
                    'SameUpToShift. Non-trivial = distinct histories whose second or later encode call needed segmentation.',
            'assumptions': COMMON_ASSUMPTIONS},
    'C05': {'level': 'model_checking', 'stages': [DEC_REASM, DEC_LINK_WALKS, DEC_STREAMS, SUITE_DEC], 'nontrivial_case': nt_dec_segmented, 'nontrivial_op': ntop_segment,
            'rule': 'MC_Link/Reassembly: per-endpoint senders of well-formed streams (unsegmented, 2..MaxSegs segments of every '
                    'size in SegSizes, optional trailing bytes / zero padding after a segment, counters crossing 65535->0), all '
                    'interleavings up to MaxFrames frames; every transition replayed on the real decoder (tree replay with '
                    'save/restore of decoder copies) with the private pending table compared through the hook; plus seeded random '
                    'streams on 1..6 endpoints with messages up to 65535 bytes and unequal segment sizes. Monitor: the call '
                    'returns exactly what the sender-side ghost expects (C05 in TraceDec). Non-trivial = distinct decode operations '
                    'feeding a segment (tree stages) / distinct episodes feeding at least one segment (random stage).',
            'assumptions': COMMON_ASSUMPTIONS},
    'C06': {'level': 'model_checking', 'technique': 'TLA+ specification model-checked with TLC; TLC-generated behaviours replayed on the real code; recorded traces validated by TLC against the specification; the no-mixing core also as an inductive invariant of a counter-level abstraction discharged by Apalache (unbounded history)',
            'stages': [DEC_APALACHE_NOMIX, DEC_FAULTS, DEC_LINK_WALKS, DEC_RFAULTS], 'nontrivial_case': nt_dec_fault, 'nontrivial_op': ntop_fault,
            'rule': 'MC_Link/Faults: the Reassembly senders plus every placement of up to MaxFaults faults (drop, duplicate, '
                    'hold/release reordering, corrupt version, corrupt type); tree replay on the real decoder; plus seeded random '
                    'fault sequences. Monitors NoCorruption (every delivered packet equals a declared sent message of its '
                    'endpoint) and Recovery (a last segment extending a clean run delivers). Non-trivial = distinct faulted '
                    'operations (tree stage) / distinct episodes containing at least one fault (random stage).',
            'assumptions': COMMON_ASSUMPTIONS},
    'C17': {'level': 'model_checking', 'technique': 'TLA+ specification model-checked with TLC; TLC-generated behaviours replayed on the real code; recorded traces validated by TLC against the specification; the byte bound also as an inductive invariant of a record-level abstraction discharged by Apalache (unbounded history)',
            'stages': [DEC_APALACHE, DEC_ANY, DEC_ANY_WALKS, DEC_RANY, DEC_STREAMS, SUITE_DEC], 'nontrivial_case': nt_dec_segmented, 'nontrivial_op': ntop_segment,
            'rule': 'MC_DecAny: every history up to MaxFrames buffers over an alphabet of well-formed, orphan, out-of-order, '
                    'changed-version/type, trailing-byte, multi-message, invalid, truncated, header-only, undersized and '
                    'TECMP-routed buffers on NEndpoints endpoints, counters crossing the wrap; tree replay on the real decoder; '
                    'monitor: endpoints in the hook table = endpoints with an open clean run (ghost from the frames alone), '
                    'buffered bytes <= bytes of the run. Non-trivial = distinct decode operations feeding a segment (tree stage) / '
                    'distinct episodes feeding at least one segment (random stage).',
            'assumptions': COMMON_ASSUMPTIONS + ['needs the read-only hook Decoder::verifPending()']},
    'C18': {'level': 'model_checking', 'stages': [DEC_ANY, DEC_ANY_WALKS, DEC_RANY, DEC_STREAMS], 'nontrivial_case': nt_dec_any, 'nontrivial_op': ntop_decode,
            'rule': 'as C17; the executor also runs one real solo decoder per endpoint on that endpoint\'s frames only; monitor: '
                    'packets returned by the shared decoder = packets of the solo decoder, every returned packet carries the '
                    'frame\'s endpoint, non-CMP buffers leave the pending table untouched. Non-trivial = distinct decode operations (tree stage) / '
                    'distinct episodes of at least two decode calls (random stage).',
            'assumptions': COMMON_ASSUMPTIONS},
    'C04': {'level': 'model_checking', 'stages': [DEC_MCFRAMES, DEC_FRAMES, SUITE_DEC, EXAMPLE_DEC], 'nontrivial_case': nt_dec_any,
            'rule': 'MC_Frames: every frame of 0..MaxMsgs messages from a catalogue of 25 payloads (all kinds, consistent / '
                    'inconsistent / bus-error), every truncation and several zero paddings, with and without a pending reassembly; '
                    'each replayed on the real decoder; plus random frames of 0..5 unsegmented messages of every payload kind with arbitrary field values, consistent and '
                    'deliberately inconsistent inner lengths, bus-error flags, truncated at any offset and zero padded, decoded by '
                    'a decoder with history; monitor DecodedMatchesWire: packets = messages found by the independent walker of '
                    'spec/Frames.tla, field by field from the layout offsets. Non-trivial = distinct episodes of at least two decode calls.',
            'assumptions': COMMON_ASSUMPTIONS},
    'C11': {'level': 'model_checking', 'stages': [OBJ_LAYOUT, OBJ_SWEEPS], 'nontrivial_case': nt_obj_sets,
            'rule': 'MC_Layout: every class x settable field x value pattern (zeros, ones, walking 1, walking 0) x background '
                    '(zeros, ones): Put/Get algebra of the field tables and each case replayed on the real object; plus sweeps on '
                    'the real objects: all values of fields <= 8 bit (<= 16 bit in the thorough tier), boundary + walking + random '
                    'values of wider fields, on zero / all-ones / random prior states, mixed 80-step setter chains and set/clear '
                    'chains of flag pairs. Monitor C11 (getter of the written field returns the value, every non-overlapping '
                    'getter, the data bytes and the size unchanged). Non-trivial = distinct episodes with at least two setter calls.',
            'assumptions': COMMON_ASSUMPTIONS},
    'C12': {'level': 'model_checking', 'stages': [OBJ_LAYOUT, OBJ_SWEEPS], 'nontrivial_case': nt_obj_sets,
            'rule': 'as C11; monitor C12: the written value sits at the offset / width / bit position of spec/Layout.tla, reserved '
                    'bits unchanged, every getter returns the bits the layout assigns to it (objects loaded from hand-laid-out '
                    'bytes included), default-constructed objects equal Default(cls) with reserved bits zero; header sizes through '
                    'the raw images. Non-trivial = distinct episodes with at least two setter calls.',
            'assumptions': COMMON_ASSUMPTIONS + ['the layout table is my transcription of ASAM CMP 1.0 / TECMP (no documents offline)']},
    'C13': {'level': 'model_checking', 'stages': [OBJ_BUILDERS, OBJ_BUILDS], 'nontrivial_case': nt_obj_build_used,
            'rule': 'MC_Builders: every kind x pair of small arguments (first build, second build on the result): rendered bytes are '
                    'valid, in bounds, give the arguments back, depend only on the last arguments; each case replayed on the real '
                    'builders; plus seeded random builds on fresh objects and on objects holding other data and non-zero headers, '
                    'interleaved with header setters. Monitor C13 (raw = Render(header before, args), views give the arguments '
                    'back, own validity check and decoder accept). Non-trivial = distinct episodes that build on a used object.',
            'assumptions': COMMON_ASSUMPTIONS},
    'C16': {'level': 'model_checking', 'stages': [ST_MC, ST_WALKS, ST_SYS, ST_SYS_WALKS, ST_RANDOM, SUITE_ST, EXAMPLE_ST], 'nontrivial_case': nt_st,
            'rule': 'MC_Status: the complete (finite, unbounded-depth) state graph of the tracker over Devs x Ifs x Tags with '
                    'capture-module status, interface status (also for devices that never sent a capture-module status), data '
                    'packets, removals and clear: the operational vector model refines the abstract latest-message map (InvC16); '
                    'every transition replayed on the real Status object (tree replay with copies); plus seeded random histories '
                    'of 300 (thorough 2000) operations over 14 device ids and 8 interface ids with full packets. Monitor: observed '
                    'entries as a map = abstract map, no duplicate ids, lookups = position in the observed order or the count. '
                    'MC_Sys: the composed system (one real encoder per device -> link that loses frames and interleaves devices -> '
                    'real decoder -> tracker, status messages in two segment frames each): TLC checks that the tracker computed '
                    'from what the decoder delivers equals the latest-message map of the completely arrived messages (SysTracker); '
                    'every transition replayed on the real objects and judged in lock step by TraceSys (C16: tracker = map of the '
                    'packets the real decoder delivered; deviations of encoder / decoder from the specification are notes), plus '
                    'random walks of the same model with more emits, losses, removals. '
                    'Non-trivial = distinct operations (tree stage) / distinct episodes containing updates and removals (random stage).',
            'assumptions': COMMON_ASSUMPTIONS},
    'C14': {'level': 'model_checking', 'stages': [VAL_MC, VAL_RANDOM], 'nontrivial_case': nt_val,
            'rule': 'MC_Values: the complete state graph of a 3-slot object store over 12 values (empty packet, zero-length '
                    'payloads of two types, data packet, one payload byte changed, timestamp changed, interface id changed, another message type, invalid-typed payload, status packets with one-byte payloads) '
                    'under make / copy-construct / move-construct / copy-assign (incl. self and equal-looking targets) / '
                    'move-assign / mutate / equality; one path per transition replayed on real Packet objects with full snapshots '
                    'of every slot after every operation; plus seeded random sequences on Packet, Payload and TECMP::Payload '
                    'stores with all payload kinds. Monitor: store semantics, equality reflexive / symmetric / negation of != / '
                    'field-by-field for non-empty payloads. Non-trivial = distinct episodes containing a copy, move or assignment.',
            'assumptions': COMMON_ASSUMPTIONS + ['moved-from objects are unspecified and only used as assignment targets']},
    'C03': {'level': 'model_checking', 'stages': [VLD_MC, VLD_RANDOM], 'nontrivial_case': nt_vld,
            'rule': 'MC_Views: the finite abstract domain of the validators (every size 0..header+8 and header+40, every inner '
                    'length field at 0, 1, available-1, available, available+1, maximum, error-flag / enumerated-field classes) per '
                    'payload kind: the specified validity rule implies in-bounds views (InvC03); every buffer given to the real '
                    'isValidPayload and, if accepted, to the constructor and every const accessor (ASan + UBSan build, input ending '
                    'at an inaccessible page, every reported view touched byte by byte); plus seeded random / near-valid / mutated '
                    'buffers and message-level buffers for Packet::isValidPacket + Packet(msgType, data, size). Monitor: accepted '
                    '=> header present, inner structure consistent, every reported view inside the payload. Non-trivial = distinct '
                    'episodes (each holds validity checks).',
            'assumptions': COMMON_ASSUMPTIONS + ['an out-of-bounds read inside the library\'s own vectors is observed by ASan (crash event), not by TLC']},
    'C15': {'level': 'model_checking', 'stages': [DEC_MCTECMP, DEC_RTECMP, SUITE_DEC], 'nontrivial_case': nt_tecmp,
            'rule': 'MC_Tecmp: message type over all 256 values x 6 data types, data type over all 65536 values, CAN / CAN-FD / LIN '
                    'data lengths 0..64 with consistent and short payloads and 0..5 trailing CRC bytes, bus status with 0..40 entries '
                    'and shorter than its generic data, capture-module status of every size 1..46, declared payload lengths '
                    'consistent and not, truncated headers; each frame converted by the real decoder (ASan + UBSan build, input at '
                    'a guard page); plus seeded random TECMP messages with arbitrary header fields. Monitor TecmpOK: packets = '
                    'Tecmp!TecmpDecode on device id, timestamp, interface id, CAN id (29 bits), LIN id (6 bits) and checksum, data '
                    'and data length, serial / version strings, per-entry counters; none for unsupported kinds or lengths that do '
                    'not fit. Non-trivial = distinct episodes containing a TECMP message of a supported message type.',
            'assumptions': COMMON_ASSUMPTIONS + ['bytes after the declared TECMP payload length are not generated (their meaning is not pinned down)',
                                                 'the CAN CRC word and the classic / FD choice are not prescribed by the property']},
    'C02': {'level': 'exploration', 'stages': [DEC_MALFORMED, DEC_MCTECMP, DEC_ANY_ASAN, DEC_FRAMES_ASAN, DEC_ARBITRARY, DEC_ARBITRARY_P],
            'nontrivial_case': nt_dec_any,
            'technique': 'TLA+ specification enumerates structured malformed inputs and fixes the expected outputs (TLC judges the '
                         'recorded traces); memory safety itself is observed by guard pages and ASan/UBSan, not decided by TLC',
            'rule': 'MC_Frames/Malformed: frames of 0..MaxMsgs catalogue messages (incl. typed payloads far shorter than their header, ending exactly at the end of the buffer) with one byte replaced (every header field, flag, '
                    'type and length field; 7 values each) or cut below the header; MC_Tecmp (72005 TECMP frames); seeded random byte '
                    'strings of 0..65536 bytes, TECMP-looking and mutated well-formed frames in histories on one decoder. Every '
                    'input is presented read-only with its end (or start) at an inaccessible page and unmapped before the result is '
                    'read; packets are re-read after the decoder is destroyed (dec.recheck); ASan + UBSan build for accesses inside '
                    'the library\'s own buffers; watchdog per episode. TLC judges: every call returned (no crash / timeout event), '
                    'outputs = specification, <= 1 packet per 12 input bytes, packets non-null and unchanged at recheck. '
                    'Non-trivial = distinct episodes of at least two decode calls.',
            'assumptions': COMMON_ASSUMPTIONS + ['memory safety is observed by guard pages and ASan/UBSan (checks alignment, vptr and '
                                                 'nonnull-attribute off: packed header casts and memcpy(_, nullptr, 0) are used by '
                                                 'design), not decided by TLA+',
                                                 '"promptly" = each episode finishes within the watchdog (20 s)']},
    'C19': {'level': 'exploration', 'stages': [CONC_MC, CONC_RUN], 'nontrivial_case': nt_any,
            'technique': 'TLA+ composition of N instance specifications (non-interference invariant, TLC); per-thread traces of '
                         'concurrent runs validated by TLC against the trace of the same workload run alone; data races observed by '
                         'ThreadSanitizer',
            'rule': 'Concurrent.tla: 2 instances (encoder, decoder, status tracker each), all interleavings of 5 operations: every '
                    'instance is where its own operations alone bring it (NonInterference). Binding: 20 (thorough 200) runs of 2..16 '
                    'threads, each thread driving its own Encoder, Decoder (incl. reassembly, faults, TECMP conversion through the '
                    'static TECMP decoder), Status object and payload builders on a seeded workload with injected yields, one log '
                    'per thread; the same workloads are first run alone; TLC (TraceSame) requires the concurrent log of every thread '
                    'to be bit-identical to its alone log; the executor is built with ThreadSanitizer (a report ends the process: '
                    'crash event). Non-trivial = distinct thread workloads (episodes) of at least two operations.',
            'assumptions': COMMON_ASSUMPTIONS + ['thread schedules are sampled (seeded yields), not enumerated',
                                                 'the absence of data races is observed by ThreadSanitizer, not decided by TLA+']},
    'C20': {'level': 'exploration', 'stages': [PERTURB_RUN, MEMCHECK_RUN], 'nontrivial_case': nt_any,
            'technique': 'the TLA+ specification predicts every output byte (checked by the other properties\' trace validation); '
                         'here TLC compares traces of the same workload under two heap fill patterns and under memcheck',
            'rule': 'workloads of the encoder, decoder (frames, reassembly, faults, TECMP), status and builder generators; every '
                    'episode is executed under MALLOC_PERTURB_=165 and =90 (fresh allocations filled with different patterns; the stack region below the caller filled with the same two bytes before every operation) and '
                    'TLC (TraceSame) requires the two logs (every frame byte incl. padding and unused id bytes, every getter, every '
                    'raw payload) to be identical; a smaller workload is executed under valgrind memcheck '
                    '(--exit-on-first-error): any decision on, or logging of, an undefined byte ends the worker (crash event). '
                    'Non-trivial = distinct episodes of at least two operations.',
            'assumptions': COMMON_ASSUMPTIONS + ['definedness is observed by memcheck and by the two heap fill patterns, not decided by TLA+',
                                                 'that the identical outputs are also the right ones is decided by the trace validation of C01, C04, C05, C07, C13, C15']},
}

for _p in PROPS.values():
    if any(_s.get('kind') == 'suite' for _s in _p['stages']):
        _p['rule'] += SUITE_RULE
