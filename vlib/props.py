"""Property table and the generic check flow (model run -> cases -> executor -> TLC judge -> verdict)."""
import hashlib
import json
import os
import time

from . import core
from . import stages

PROPS = stages.PROPS


def _episodes(path):
    """[(episode id, [lines])] of a trace, in order; lines before the first begin go to a pseudo episode."""
    out = []
    cur = ('', [])
    with open(path, errors='replace') as f:
        for line in f:
            if not line.strip():
                continue
            if line.startswith('{"e":"begin"') or line.startswith('{"e":"thread"'):
                if cur[1]:
                    out.append(cur)
                try:
                    cur = (json.loads(line).get('id', ''), [line])
                except Exception:
                    cur = ('?', [line])
            else:
                cur[1].append(line)
    if cur[1]:
        out.append(cur)
    return out


def _judge_pair_chunked(pid, x, y, tag, limit=12 << 20):
    """TraceSame loads both logs: judge them in aligned chunks of whole episodes (at most ~12 MB of the first log each)."""
    core.clean_trace(x)
    core.clean_trace(y)
    ex, ey = _episodes(x), _episodes(y)
    by_id = {}
    for i, (eid, lines) in enumerate(ey):
        by_id.setdefault(eid, []).append(lines)
    res = {'events': 0, 'fails': [], 'counts': {}, 'dropped_lines': 0}
    chunks = []
    cur_a, cur_b, size = [], [], 0
    for eid, lines in ex:
        other = by_id.get(eid, [])
        cur_a += lines
        cur_b += other.pop(0) if other else []
        size += sum(len(l) for l in lines)
        if size >= limit:
            chunks.append((cur_a, cur_b))
            cur_a, cur_b, size = [], [], 0
    left = [l for v in by_id.values() for ls in v for l in ls]          # episodes only the second log has
    if cur_a or left:
        chunks.append((cur_a, cur_b + left))
    for k, (la, lb) in enumerate(chunks):
        pa, pb = '%s.c%d.A' % (x, k), '%s.c%d.B' % (x, k)
        open(pa, 'w').writelines(la)
        open(pb, 'w').writelines(lb if lb else ['{"e":"begin","id":"_none_","comp":""}\n'])
        if not la:
            open(pa, 'w').write('{"e":"begin","id":"_none_","comp":""}\n')
        j = core.judge('TraceSame', pa, '%s.c%d' % (tag, k), nchunks=1, env={'TRACE2': pb, 'PROP': pid}, second=pb)
        res['events'] += j['events']
        res['fails'] += j['fails']
        for c, v in j['counts'].items():
            res['counts'][c] = res['counts'].get(c, 0) + v
        os.remove(pa)
        os.remove(pb)
    return res


def _pair_judge(pid, tag, stage, cases, nchunks=None):
    """Stages that compare two executions of the same workload (C19: alone vs concurrent; C20: two heap fill
    patterns, and a run under memcheck).  The cases are split into parts that run and are judged side by side."""
    exe = core.build(stage.get('variant', 'plain'))
    lines = [l for l in open(cases) if l.strip()]
    mode = stage['mode']
    nparts = 1 if nchunks == 1 else max(1, min(core.NCPU // (4 if mode == 'threads' else 1), len(lines) // stage.get('per_part', 40)))
    if mode == 'threads':
        # keep whole runs together: a part is a set of runs, each run a set of threads
        runs = {}
        for l in lines:
            runs.setdefault(json.loads(l).get('run', 0), []).append(l)
        groups = [[] for _ in range(min(nparts, len(runs)))]
        for k, r in enumerate(sorted(runs)):
            groups[k % len(groups)].append(runs[r])
    else:
        groups = [[lines[k::nparts]] for k in range(nparts)]
    tdir = os.path.join(core.OUT, 'trace')
    os.makedirs(tdir, exist_ok=True)

    def part(k):
        res = {'events': 0, 'fails': [], 'counts': {}, 'dropped_lines': 0}
        for r, runlines in enumerate(groups[k]):
            base = os.path.join(tdir, '%s.p%d.r%d' % (tag, k, r))
            cp = base + '.cases'
            with open(cp, 'w') as f:
                f.writelines(runlines)
            pairs = []
            if mode == 'threads':
                core.run_exec(exe, cp, base, pre='--threads', env=stage.get('env'))
                ths = sorted(set(json.loads(l).get('thread', 0) for l in runlines))
                a, b = base + '.A', base + '.B'
                for dst, kind in ((a, 'alone'), (b, 'conc')):
                    with open(dst, 'w') as f:
                        for t in ths:
                            p = '%s.%s.%d' % (base, kind, t)
                            f.write('{"e":"thread","id":"thread-%d"}\n' % t)
                            if os.path.exists(p):
                                f.write(open(p, errors='replace').read())
                                os.remove(p)
                pairs.append((a, b))
            else:
                a, b = base + '.A', base + '.B'
                core.run_exec(exe, cp, a, env={'MALLOC_PERTURB_': '165', 'VERIF_STACK_FILL': '165'})
                core.run_exec(exe, cp, b, env={'MALLOC_PERTURB_': '90', 'VERIF_STACK_FILL': '90'})
                pairs.append((a, b))
                if stage.get('memcheck'):
                    v = base + '.V'
                    core.run_exec(exe, cp, v, env={'MALLOC_PERTURB_': '165', 'VERIF_WATCHDOG': '600'},
                                  wrapper='valgrind -q --error-exitcode=97 --exit-on-first-error=yes --undef-value-errors=yes '
                                          '--child-silent-after-fork=no --trace-children=no')
                    pairs.append((a, v))
            for x, y in pairs:
                if mode == 'threads':
                    j = core.judge('TraceSame', x, '%s.p%d.r%d.%s' % (tag, k, r, os.path.basename(y)[-1]), nchunks=1,
                                   env={'TRACE2': y, 'PROP': pid}, second=y)
                else:
                    j = _judge_pair_chunked(pid, x, y, '%s.p%d.r%d.%s' % (tag, k, r, os.path.basename(y)[-1]))
                res['events'] += j['events']
                res['fails'] += j['fails']
                for c, v in j['counts'].items():
                    res['counts'][c] = res['counts'].get(c, 0) + v
            for x in set(sum(([a, b] for a, b in pairs), [])):
                if os.path.exists(x) and not os.environ.get('VERIF_KEEP'):
                    os.remove(x)
            os.remove(cp)
        return res

    from concurrent.futures import ThreadPoolExecutor
    with ThreadPoolExecutor(len(groups)) as ex:
        parts = list(ex.map(part, range(len(groups))))
    out = {'events': 0, 'fails': [], 'counts': {}, 'dropped_lines': 0}
    for r in parts:
        out['events'] += r['events']
        out['fails'] += r['fails']
        for c, v in r['counts'].items():
            out['counts'][c] = out['counts'].get(c, 0) + v
    return out


def _suite_trace(tag, stage):
    """Run the recorded test suite; the trace of the stage's component, or None."""
    exe = core.build_suite(stage.get('program', 'tests'))
    if exe is None:
        return None, 'the wrapped test binary could not be built'
    os.makedirs(os.path.join(core.OUT, 'trace'), exist_ok=True)
    traces, rc = core.run_suite(exe, os.path.join(core.OUT, 'trace', tag))
    mine = traces.get(stage['comp'])
    for c, p in traces.items():
        if p != mine:
            os.remove(p)
    if mine is None:
        return None, 'the suite recorded no %s events (exit status %d)' % (stage['comp'], rc)
    return mine, rc


def _judge_cases(pid, tag, stage, cases, nchunks=None):
    if stage.get('mode'):
        return _pair_judge(pid, tag, stage, cases, nchunks)
    if stage['kind'] == 'suite':
        trace, why = _suite_trace(tag, stage)
        if trace is None:
            raise core.MachineryError('suite stage: ' + str(why))
        j = core.judge(stage['trace'], trace, tag, nchunks=1)
        if not os.environ.get('VERIF_KEEP'):
            os.remove(trace)
        return j
    exe = core.build(stage.get('variant', 'plain'))
    trace = os.path.join(core.OUT, 'trace', tag + '.ndjson')
    os.makedirs(os.path.dirname(trace), exist_ok=True)
    core.run_exec(exe, cases, trace, env=stage.get('env'), wrapper=stage.get('wrapper', ''))
    j = core.judge(stage['trace'], trace, tag, nchunks=nchunks, env=stage.get('judge_env'))
    if not os.environ.get('VERIF_KEEP'):
        os.remove(trace)
    return j


def _select(pid, fails):
    """Failures that count against pid: only pid's own monitor (attribution rule, DESIGN 2.2)."""
    return [f for f in fails if pid in f[2]]


def run(pid, tier, seed, t0):
    P = PROPS[pid]
    os.makedirs(os.path.join(core.OUT, 'cases'), exist_ok=True)
    cov = {'states': 0, 'transitions': 0, 'traces_validated_against_impl': 0, 'events_judged': 0,
           'stages': [], 'samples': [], 'counters': {}, 'checker_cmd': 'tlc (TLC 1.8.0) on spec/*.tla'}
    distinct = set()
    all_fails = []       # (stage tag, cases path, episode, line, monitors)
    notes = 0
    only = os.environ.get('VERIF_ONLY_STAGE')        # self-tests: run one stage of the check (never used by registered commands)
    for si, st in enumerate(P['stages']):
        if only and st['name'] != only:
            continue
        tag = '%s.%s.%s' % (pid, tier, st['name'])
        cases = os.path.join(core.OUT, 'cases', tag + '.ndjson')
        info = {'name': st['name']}
        if st['kind'] == 'proof':
            # an inductive invariant discharged by Apalache (about the design, unbounded): a failure is a machinery error
            t1 = time.time()
            r = core.sh('%s %s %s' % (os.path.join(core.SPEC, st['script']), os.path.join(core.OUT, 'apalache-' + tag), st.get('module', '')))
            ok = r.returncode == 0 and r.stdout.count('EXITCODE: OK') == st['obligations']
            if not ok:
                raise core.MachineryError('Apalache did not discharge %s:\n%s' % (st['script'], r.stdout[-1500:]))
            info.update({'tool': 'apalache-mc 0.58', 'obligations': st['obligations'], 'discharged': st['obligations'],
                         'statement': st['statement'], 'apalache_s': round(time.time() - t1, 1)})
            core.log('%s: Apalache discharged %d obligations of %s (%.0fs)' % (pid, st['obligations'], st['script'], time.time() - t1))
            cov['stages'].append(info)
            continue
        if st['kind'] == 'suite':
            # the repository's own tests, recorded at the public entry points and judged like every other trace
            trace, why = _suite_trace(tag + '.list', st)
            if trace is None:
                info['skipped'] = str(why)
                core.log('%s: %s skipped: %s' % (pid, st['name'], why))
                cov['stages'].append(info)
                continue
            eps = [eid for eid, _ in _episodes(trace)]
            os.remove(trace)
            with open(cases, 'w') as f:
                for eid in eps:
                    f.write(json.dumps({'id': eid, 'comp': 'suite-' + st['comp'], 'test': eid.split('-')[1] if eid.count('-') >= 2 else eid,
                                        'ops': []}, separators=(',', ':')) + '\n')
            n = len(eps)
            info['source'] = "the repository's %s, calls recorded with ld --wrap (harness/suite/suite_wrap.cpp)" % \
                ('gtest suite' if st.get('program', 'tests') == 'tests' else 'example program (example/main.cpp)')
            core.log('%s: recorded %s program: %d %s episodes' % (pid, st.get('program', 'tests'), n, st['comp']))
        elif st['kind'] == 'mc':
            cfg = st['cfg'][tier]
            extra = ''
            if st.get('simulate'):
                # random walks over the specification's own alphabet (long behaviours; TLC simulation mode, seeded)
                traces, depth = st['simulate'][tier]
                wk = max(1, min(core.NCPU, traces))
                extra = '-simulate num=%d -depth %d -seed %d' % (max(1, traces // wk), depth, seed)
                logp, s = core.mc(st['module'], cfg, tag + '.mc', extra=extra, workers=wk)
            else:
                logp, s = core.mc(st['module'], cfg, tag + '.mc')
            if st.get('tree'):
                nedges, n = core.dump_tree_cases(logp, st['comp'], st['name'] + '-', cases,
                                                 per_episode=st.get('per_episode', 3000), extra=st.get('extra'))
                info['edges_replayed'] = nedges
            else:
                n = core.dump_cases(logp, st['comp'], st['name'] + '-', cases, limit=st.get('limit', {}).get(tier),
                                    extra=st.get('extra'))
            if not os.environ.get('VERIF_KEEP'):
                os.remove(logp)
            cov['states'] += s['distinct']
            cov['transitions'] += s['generated']
            info.update({'model': st['module'], 'cfg': cfg, 'states': s['distinct'], 'transitions': s['generated'],
                         'depth': s.get('depth'), 'tlc_s': s['wall_s'], 'invariants': st.get('invariants', []),
                         'exhaustive': not st.get('simulate'), 'mode': 'simulation (random walks)' if st.get('simulate') else 'exhaustive'})
            core.log('%s: TLC %s/%s: %d states, %d transitions, %.0fs; %d replay cases'
                     % (pid, st['module'], cfg, s['distinct'], s['generated'], s['wall_s'], n))
            if st.get('model_only'):
                cov['stages'].append(info)
                continue
        else:
            n = st['gen'](tier, seed, cases)
            core.log('%s: generator %s: %d episodes (seed %d)' % (pid, st['name'], n, seed))
        if n == 0:
            raise core.MachineryError('stage %s produced no cases' % tag)
        # samples of what was explored; distinct non-trivial cases by the property's stated rule
        ntf = P.get('nontrivial_case')
        with open(cases) as f:
            for k, line in enumerate(f):
                if k in (0, n // 2):
                    cov['samples'].append({'stage': st['name'], 'case': json.loads(line) if len(line) < 3000
                                           else line[:3000] + '...(truncated)'})
                if st.get('tree'):
                    # a tree episode packs thousands of transitions: count the distinct non-trivial operations
                    c = json.loads(line)
                    ntop = P.get('nontrivial_op') or (lambda op: op.get('op') not in ('new', 'restore'))
                    for op in c.get('ops', []):
                        if ntop(op):
                            op = dict(op)
                            op.pop('save', None)
                            distinct.add(hashlib.sha1(json.dumps(op, sort_keys=True).encode()).digest())
                elif ntf:
                    c = json.loads(line)
                    if ntf(c):
                        distinct.add(hashlib.sha1(json.dumps(c.get('ops'), sort_keys=True).encode()).digest())
        j = _judge_cases(pid, tag, st, cases)
        info.update({'episodes': n, 'events': j['events']})
        # a tree-shaped episode validates one behaviour (path from the initial state) per replayed transition
        cov['traces_validated_against_impl'] += info.get('edges_replayed', n)
        cov['events_judged'] += j['events']
        for k, v in j['counts'].items():
            cov['counters'][k] = cov['counters'].get(k, 0) + v
        mine = _select(pid, j['fails'])
        notes += sum(1 for f in j['fails'] if 'NC' in f[2] and pid not in f[2])
        unknown = [f for f in j['fails'] if 'UNKNOWN-EVENT' in f[2]]
        if unknown:
            raise core.MachineryError('trace spec %s met an unknown event (episode %s)' % (st['trace'], unknown[0][0]))
        core.log('%s: %s: %d episodes, %d events judged by %s, %d fail %s'
                 % (pid, st['name'], n, j['events'], st['trace'], len(mine), pid))
        for f in mine:
            all_fails.append((si, cases, f[0], f[1], f[2]))
        cov['stages'].append(info)

    # ---- confirm (a rejection is reported only if a re-run repeats it), then triage against known findings
    confirmed = []
    if all_fails:
        by_stage = {}
        for si, cases, ep, line, mons in all_fails:
            by_stage.setdefault(si, (cases, []))[1].append(ep)
        for si, (cases, eps) in by_stage.items():
            st = P['stages'][si]
            table = core.load_cases(cases)
            uniq = []
            for e in eps:
                if e not in uniq:
                    uniq.append(e)
            sel = [e for e in uniq if e in table][:40]
            if not sel:
                # failures attributed to a whole thread / process (no single episode): re-run the first episodes of the stage
                sel = list(table)[:40]
            if st.get('mode') == 'threads':
                # a thread workload only means something together with the other threads of its run
                runs = set(json.loads(table[e]).get('run') for e in sel)
                sel = [e for e in table if json.loads(table[e]).get('run') in runs][:400]
            rp = core.write_replay(pid, [table[e] for e in sel], si)
            j = _judge_cases(pid, '%s.confirm%d' % (pid, si), st, rp, nchunks=1)
            again = set(f[0] for f in _select(pid, j['fails']))
            for e in sel:
                if e in again or (again and not (again & set(sel))):
                    confirmed.append((si, e, table[e]))
            if len(uniq) > len(sel) and again:
                # more failing episodes than were re-run: keep them as unconfirmed extras
                pass
        if not confirmed:
            core.log('%s: %d rejection(s) did not repeat on re-run: not reported' % (pid, len(all_fails)))

    known = [k for k in core.known_findings() if k.get('property') == pid and k.get('status', 'open') == 'open']
    new = []
    hit = {}
    for si, ep, line in confirmed:
        k = stages.match_known(pid, known, json.loads(line), P['stages'][si])
        if k is None:
            new.append((si, ep, line))
        else:
            hit.setdefault(k['id'], k)
    for k in hit.values():
        print('KNOWN-FINDING: property=%s %s' % (pid, k['what']))
    rc = 0
    if new:
        rp = core.write_replay(pid, [line for _, _, line in new[:20]], 99)
        print('VIOLATION property=%s replay=%s' % (pid, rp))
        print('  %d failing episode(s) of %d confirmed; first: %s' % (len(new), len(confirmed), new[0][1]))
        rc = 1
    if notes:
        print('NOTE nonconformance: %d event(s) differ from the specification without violating %s' % (notes, pid))
    cov['exhaustive'] = False
    cov['rule'] = P['rule']
    cov['evaluations'] = cov['traces_validated_against_impl']
    cov['distinct_nontrivial'] = len(distinct)
    cov['failing_episodes'] = len(all_fails)
    cov['known_findings_hit'] = sorted(hit)
    core.write_evidence(pid, tier, seed, P['level'], cov, P['assumptions'], time.time() - t0, len(new))
    core.log('%s: %s (%.0fs)' % (pid, 'VIOLATION' if rc else 'held on everything explored', time.time() - t0))
    return rc


def replay(pid, path):
    """Re-execute the cases of a replay file on the current tree and re-judge them."""
    P = PROPS[pid]
    first = json.loads(open(path).readline())
    comp = first.get('comp')
    runnable = [s for s in P['stages'] if s.get('trace', '-') != '-' and s['kind'] in ('mc', 'gen', 'suite')]
    st = next((s for s in runnable if (('suite-' + s['comp']) if s['kind'] == 'suite' else s.get('comp')) == comp), None) or next((s for s in runnable if s.get('comp') == '*'), runnable[0])
    j = _judge_cases(pid, pid + '.replay', st, path, nchunks=1)
    mine = _select(pid, j['fails'])
    for f in mine:
        print('  episode %s line %d fails %s' % (f[0], f[1], sorted(f[2])))
    if mine:
        print('VIOLATION property=%s replay=%s' % (pid, path))
        return 1
    print('replay: %d events, %s holds' % (j['events'], pid))
    return 0
