"""Core of the check driver: build cache, TLC runs (model checking and trace judging), executor runs,
evidence and verdict handling.  No oracle lives here: verdicts come from TLC (spec/Trace*.tla)."""
import glob
import hashlib
import json
import os
import re
import shutil
import subprocess
import sys
import time
from concurrent.futures import ThreadPoolExecutor

VERIF = os.path.dirname(os.path.dirname(os.path.abspath(__file__)))
REPO = os.environ.get('VERIF_REPO', '/repo')
OUT = os.environ.get('VERIF_OUT') or os.path.join(VERIF, 'out')     # self-tests relocate the scratch area
SPEC = os.path.join(VERIF, 'spec')
HARNESS = os.path.join(VERIF, 'harness')
GUARD = 'ASAM_CMP_VERIF'
NCPU = os.cpu_count() or 4
JUDGES = int(os.environ.get('VERIF_JUDGES', min(NCPU, 12)))      # judge JVMs side by side (3 GB heap each)

sys.path.insert(0, os.path.join(VERIF, 'gen'))
import tlcdump  # noqa: E402


class MachineryError(Exception):
    """The machinery itself failed (build, TLC crash, executor missing): exit 2, never a VIOLATION."""


_T0 = time.time()


def log(msg):
    print('[check %4.0fs] %s' % (time.time() - _T0, msg), flush=True)


def sh(cmd, **kw):
    return subprocess.run(cmd, shell=isinstance(cmd, str), stdout=subprocess.PIPE, stderr=subprocess.STDOUT,
                          universal_newlines=True, **kw)


# ---------------------------------------------------------------- build cache
def tree_hash():
    h = hashlib.sha256()
    files = sorted(glob.glob(os.path.join(REPO, 'src', '*.cpp')) +
                   glob.glob(os.path.join(REPO, 'include', '**', '*.h'), recursive=True) +
                   glob.glob(os.path.join(HARNESS, '*.cpp')) + glob.glob(os.path.join(HARNESS, '*.h')))
    for f in files:
        h.update(f.encode())
        with open(f, 'rb') as fh:
            h.update(fh.read())
    h.update(json.dumps(VARIANTS, sort_keys=True).encode())
    return h.hexdigest()[:16]


VARIANTS = {
    # name: (compiler, flags)
    'plain': ('g++', '-O1 -g'),
    'asan': ('clang++', '-O1 -g -fsanitize=address,undefined -fno-sanitize=alignment,vptr,nonnull-attribute '
                        '-fno-sanitize-recover=all -fno-omit-frame-pointer'),
    'tsan': ('clang++', '-O1 -g -fsanitize=thread'),
}


def build(variant='plain'):
    """Build harness/exec against /repo's current working tree with hooks on; cached on a content hash."""
    th = tree_hash()
    d = os.path.join(OUT, 'build', th, variant)
    exe = os.path.join(d, 'exec')
    if os.path.exists(exe):
        return exe
    # drop builds of other trees (disk is limited)
    for old in glob.glob(os.path.join(OUT, 'build', '*')):
        if os.path.basename(old) not in (th, 't') and time.time() - os.path.getmtime(old) > 3600:
            shutil.rmtree(old, ignore_errors=True)
    final = d
    d = d + '.tmp%d' % os.getpid()          # concurrent checks build side by side and rename atomically
    os.makedirs(d, exist_ok=True)
    cc, flags = VARIANTS[variant]
    srcs = sorted(glob.glob(os.path.join(REPO, 'src', '*.cpp'))) + sorted(glob.glob(os.path.join(HARNESS, '*.cpp')))
    t0 = time.time()

    def comp(src):
        obj = os.path.join(d, os.path.basename(src) + '.o')
        r = sh('%s -std=c++17 %s -D%s -I%s/include -I%s -c %s -o %s' % (cc, flags, GUARD, REPO, HARNESS, src, obj))
        return src, r

    with ThreadPoolExecutor(NCPU) as ex:
        for src, r in ex.map(comp, srcs):
            if r.returncode != 0:
                shutil.rmtree(d, ignore_errors=True)
                raise MachineryError('compile failed (%s): %s\n%s' % (variant, src, r.stdout[-3000:]))
    r = sh('%s %s %s/*.o -o %s/exec -lpthread && rm -f %s/*.o' % (cc, flags, d, d, d))
    if r.returncode != 0:
        shutil.rmtree(d, ignore_errors=True)
        raise MachineryError('link failed (%s)\n%s' % (variant, r.stdout[-3000:]))
    try:
        os.rename(d, final)
    except OSError:
        shutil.rmtree(d, ignore_errors=True)    # another check finished the same build first
    log('built %s executor in %.1fs (tree %s)' % (variant, time.time() - t0, th))
    return exe


# ---------------------------------------------------------------- the repository's own suite, recorded
SUITE_WRAPPED = [
    '_ZN4ASAM3CMP7Encoder4initERKNS0_11DataContextE', '_ZN4ASAM3CMP7Encoder9putPacketERKNS0_6PacketE',
    '_ZN4ASAM3CMP7Encoder14getEncodedDataEv', '_ZN4ASAM3CMP7Encoder6encodeERKNS0_6PacketERKNS0_11DataContextE',
    '_ZN4ASAM3CMP7Encoder11setDeviceIdEt', '_ZN4ASAM3CMP7Encoder11setStreamIdEh', '_ZN4ASAM3CMP7Encoder7restartEv',
    '_ZN4ASAM3CMP7Decoder6decodeEPKvm', '_ZN5TECMP7Decoder6DecodeEPKvm',
    '_ZN4ASAM3CMP6Status6updateERKNS0_6PacketE', '_ZN4ASAM3CMP6Status16removeDeviceByIdEt', '_ZN4ASAM3CMP6Status5clearEv',
]


def build_suite(program='tests'):
    """The repository's gtest suite linked with the recorder harness/suite/suite_wrap.cpp (ld --wrap on the public entry
    points of Encoder / Decoder / Status / TECMP::Decoder).  Returns the binary, or None when it cannot be built
    (a changed signature of a wrapped function, a test that no longer compiles): the stage is then skipped and says so -
    it is an additional source of recorded behaviours, never the only stage of a check."""
    h = hashlib.sha256()
    h.update(program.encode())
    prog_dir = 'tests' if program == 'tests' else 'example'
    files = sorted(glob.glob(os.path.join(REPO, 'src', '*.cpp')) + glob.glob(os.path.join(REPO, prog_dir, '*')) +
                   glob.glob(os.path.join(REPO, 'include', '**', '*.h'), recursive=True) +
                   glob.glob(os.path.join(HARNESS, 'suite', '*.cpp')) + [os.path.join(HARNESS, x) for x in ('common.cpp', 'common.h', 'ops.h')])
    for f in files:
        h.update(f.encode())
        with open(f, 'rb') as fh:
            h.update(fh.read())
    d = os.path.join(OUT, 'build', 'suite-' + h.hexdigest()[:16])
    exe = os.path.join(d, 'suite')
    if os.path.exists(exe):
        return exe
    if os.path.exists(os.path.join(d, 'FAILED')):
        return None
    for old in glob.glob(os.path.join(OUT, 'build', 'suite-*')):
        if time.time() - os.path.getmtime(old) > 3600:
            shutil.rmtree(old, ignore_errors=True)
    tmp = d + '.tmp%d' % os.getpid()
    os.makedirs(tmp, exist_ok=True)
    srcs = sorted(glob.glob(os.path.join(REPO, 'src', '*.cpp'))) + sorted(glob.glob(os.path.join(REPO, prog_dir, '*.cpp'))) + \
        [os.path.join(HARNESS, 'common.cpp')] + sorted(glob.glob(os.path.join(HARNESS, 'suite', '*.cpp')))
    t0 = time.time()

    def comp(src):
        obj = os.path.join(tmp, os.path.basename(os.path.dirname(src)) + '_' + os.path.basename(src) + '.o')
        return src, sh('g++ -std=c++17 -O1 -g -D%s %s -I%s/include -I%s -c %s -o %s'
                       % (GUARD, '' if program == 'tests' else '-DSUITE_EXAMPLE', REPO, HARNESS, src, obj))

    err = None
    with ThreadPoolExecutor(NCPU) as ex:
        for src, r in ex.map(comp, srcs):
            if r.returncode != 0 and err is None:
                err = 'compile failed: %s\n%s' % (src, r.stdout[-1500:])
    if err is None:
        r = sh('g++ -g %s/*.o %s %s -lpthread -o %s/suite && rm -f %s/*.o'
               % (tmp, ' '.join('-Wl,--wrap=' + m for m in SUITE_WRAPPED), '-lgmock -lgtest' if program == 'tests' else '', tmp, tmp))
        if r.returncode != 0:
            err = 'link failed\n' + r.stdout[-1500:]
    if err is not None:
        sh('rm -f %s/*.o' % tmp)
        open(os.path.join(tmp, 'FAILED'), 'w').write(err)
        log('the recorded %s program could not be built, its stage is skipped: %s' % (program, err.splitlines()[0]))
    try:
        os.rename(tmp, d)
    except OSError:
        shutil.rmtree(tmp, ignore_errors=True)
    if err is None:
        log('built the recorded %s program in %.1fs' % (program, time.time() - t0))
    return exe if os.path.exists(exe) else None


def run_suite(exe, prefix):
    """Run the wrapped suite; returns {component: trace path}.  A failing test is not this stage's business
    (the suite's own verdict is the baseline's); whatever was recorded is judged."""
    for p in glob.glob(prefix + '.*.ndjson'):
        os.remove(p)
    e = dict(os.environ, VERIF_SUITE_TRACE=prefix)
    r = subprocess.run('timeout 600 %s > %s.stdout 2>&1' % (exe, prefix), shell=True, env=e)
    return {c: '%s.%s.ndjson' % (prefix, c) for c in ('enc', 'dec', 'st') if os.path.exists('%s.%s.ndjson' % (prefix, c))}, r.returncode


# ---------------------------------------------------------------- TLC
def tlc(module, cfg, tag, workers=NCPU, env=None, timeout=3000, heap='8g', extra=''):
    """Run TLC on spec/<module>.tla with spec/cfg/<cfg>; returns (logpath, stats)."""
    md = os.path.join(OUT, 'md', tag)
    shutil.rmtree(md, ignore_errors=True)
    os.makedirs(md, exist_ok=True)
    logp = os.path.join(OUT, 'log', tag + '.log')
    os.makedirs(os.path.dirname(logp), exist_ok=True)
    e = dict(os.environ)
    if env:
        e.update(env)
    cfgp = cfg if os.path.isabs(cfg) else os.path.join(SPEC, 'cfg', cfg)
    # judges run one worker each, many side by side: serial GC and C1 only keep them from fighting for cores
    gc = '-XX:+UseSerialGC -XX:TieredStopAtLevel=1' if workers == 1 else \
         '-XX:+UseParallelGC -XX:ParallelGCThreads=%d' % max(2, min(workers, 8))
    # TLC leaves an empty tlc-<n> directory in java.io.tmpdir on every start: keep it inside the (removed) metadir
    gc += ' -Djava.io.tmpdir=%s' % md
    cmd = ('cd %s && timeout %d java %s -Xmx%s -Xss64m -cp /opt/veriftools/tla/tla2tools.jar:'
           '/opt/veriftools/tla/CommunityModules-deps.jar tlc2.TLC -noGenerateSpecTE -workers %d -metadir %s -config %s %s %s.tla > %s 2>&1'
           % (SPEC, timeout, gc, heap, workers, md, cfgp, extra, module, logp))
    t0 = time.time()
    r = subprocess.run(cmd, shell=True, env=e)
    st = tlcdump.stats(logp)
    st['wall_s'] = round(time.time() - t0, 1)
    st['rc'] = r.returncode
    shutil.rmtree(md, ignore_errors=True)
    return logp, st


def mc(module, cfg, tag, **kw):
    """Model-check a bounded configuration.  An invariant violation of the *specification* is a machinery
    error (the design itself would be wrong), not a property violation of the code."""
    logp, st = tlc(module, cfg, tag, **kw)
    if st['rc'] != 0 or not st.get('finished') or 'distinct' not in st:
        tail = sh('grep -v \'^<<"\' %s | tail -30' % logp).stdout
        raise MachineryError('TLC model run %s/%s failed (rc=%s)\n%s' % (module, cfg, st['rc'], tail))
    return logp, st


def dump_cases(logp, comp, prefix, path, limit=None, tag='CASE', extra=None):
    """TLC edge dump (one concrete path per transition) -> executor cases."""
    n = 0
    with open(path, 'w') as f:
        for h in tlcdump.printed_json(logp, tag):
            n += 1
            ep = {'id': '%s%d' % (prefix, n), 'comp': comp}
            if extra:
                ep.update(extra)
            ep['ops'] = h
            f.write(json.dumps(ep, separators=(',', ':')) + '\n')
            if limit and n >= limit:
                break
    return n


EDGE_RE = re.compile(r'^<<"EDGE", <<([\d, ]*)>>, (".*")>>$')


def dump_tree_cases(logp, comp, prefix, path, per_episode=4000, extra=None, first_op=None):
    """TLC edge dump in tree form: every dumped line is (path key, last operation); the keys are prefix closed.
    Sorted, they are a depth-first traversal; the executor walks it with save / restore of the real object,
    so that every transition of the state graph costs one call on the real code, not a whole path."""
    tmp = path + '.edges'
    n = 0
    with open(logp, errors='replace') as f, open(tmp, 'w') as g:
        for line in f:
            m = EDGE_RE.match(line.rstrip('\n'))
            if not m:
                continue
            key = '.'.join('%08d' % int(x) for x in m.group(1).split(',') if x.strip())
            g.write(key + '\t' + json.loads(m.group(2)) + '\n')
            n += 1
    if n == 0:
        os.remove(tmp)
        return 0, 0
    r = sh('LC_ALL=C sort -S 2G -t "\t" -k1,1 %s -o %s' % (tmp, tmp))
    if r.returncode != 0:
        raise MachineryError('sort failed: ' + r.stdout)
    first_op = first_op or {'op': 'new'}
    neps = 0
    with open(tmp) as f, open(path, 'w') as out:
        stack = []          # ops along the current path (as JSON strings, with their save slot)
        cur = []            # current key
        ops = None
        count = 0

        def flush():
            nonlocal ops, neps
            if ops:
                ep = {'id': '%s%d' % (prefix, neps), 'comp': comp}
                if extra:
                    ep.update(extra)
                out.write(json.dumps(ep, separators=(',', ':'))[:-1] + ',"ops":[' + ','.join(ops) + ']}\n')
                neps += 1
            ops = None

        for line in f:
            key_s, op_s = line.rstrip('\n').split('\t', 1)
            key = key_s.split('.')
            c = len(key) - 1
            op_s = op_s[:-1] + ',"save":%d}' % len(key)
            if ops is None or count >= per_episode:
                flush()
                ops = [json.dumps(first_op, separators=(',', ':'))] + stack[:c]
                count = 0
            elif c < len(cur):
                ops.append('{"op":"restore","slot":%d}' % c)
            ops.append(op_s)
            count += 1
            stack = stack[:c] + [op_s]
            cur = key
        flush()
    os.remove(tmp)
    return n, neps


# ---------------------------------------------------------------- executor
def run_exec(exe, cases, trace, env=None, timeout=3000, wrapper='', pre=''):
    e = dict(os.environ)
    e.setdefault('ASAN_OPTIONS', 'abort_on_error=1:detect_leaks=0:allocator_may_return_null=1:symbolize=0')
    e.setdefault('UBSAN_OPTIONS', 'halt_on_error=1:abort_on_error=1:print_stacktrace=0')
    e.setdefault('TSAN_OPTIONS', 'halt_on_error=1:abort_on_error=1')
    if env:
        e.update(env)
    errp = trace + '.stderr'
    r = subprocess.run('timeout %d %s %s %s %s %s 2> %s' % (timeout, wrapper, exe, pre, cases, trace, errp), shell=True, env=e)
    if r.returncode != 0:
        raise MachineryError('executor failed rc=%d: %s' % (r.returncode, open(errp).read()[-2000:]))
    return trace


def clean_trace(trace):
    """Drop lines that are not complete JSON objects (a worker killed in the middle of a write)."""
    good = bad = 0
    tmp = trace + '.clean'
    with open(trace, errors='replace') as f, open(tmp, 'w') as g:
        for line in f:
            s = line.strip()
            if not s:
                continue
            if s[0] == '{' and s[-1] == '}':
                try:
                    if bad or len(s) < 4096:
                        json.loads(s)
                    g.write(s + '\n')
                    good += 1
                    continue
                except Exception:
                    pass
            bad += 1
    os.replace(tmp, trace)
    return good, bad


def split_trace(trace, nchunks, tag):
    """Split at episode boundaries ("begin" events) into roughly equal chunks."""
    size = os.path.getsize(trace)
    target = max(size // max(nchunks, 1), 1)
    paths = []
    cur = None
    written = 0
    idx = 0
    with open(trace) as f:
        for line in f:
            if cur is None or (written >= target and line.startswith('{"e":"begin"')):
                if cur:
                    cur.close()
                p = os.path.join(OUT, 'chunks', '%s.%d.ndjson' % (tag, idx))
                os.makedirs(os.path.dirname(p), exist_ok=True)
                cur = open(p, 'w')
                paths.append(p)
                idx += 1
                written = 0
            cur.write(line)
            written += len(line)
    if cur:
        cur.close()
    return paths


FAIL_RE = re.compile(r'^<<"FAIL", (\d+), "([^"]*)", \{(.*)\}>>')
NOTE_RE = re.compile(r'^<<"(COUNT|NOTE)", (.*)>>')


def judge(module, trace, tag, nchunks=None, cfg='Trace.cfg', env=None, second=None):
    """TLC judges a recorded trace.  Returns dict: events, fails = [(episode, line, set(monitors))], counts."""
    good, bad = clean_trace(trace)
    if second:
        clean_trace(second)
    if good == 0:
        raise MachineryError('empty trace %s' % trace)
    if nchunks is None:
        # chunks of at most ~24 MB / ~1500 events, as many as it takes; a pool of judges works through them
        nchunks = max(1, min(600, max(os.path.getsize(trace) // (24 << 20), min(NCPU, good // 1500)) + 1))
    chunks = split_trace(trace, nchunks, tag)
    fails = []
    counts = {}
    events = 0

    def one(i_p):
        i, p = i_p
        e = {'TRACE': p}
        if env:
            e.update(env)
        return tlc(module, cfg, '%s.j%d' % (tag, i), workers=1, env=e, heap='3g') + (p,)

    with ThreadPoolExecutor(min(len(chunks), JUDGES)) as ex:
        results = list(ex.map(one, enumerate(chunks)))
    for logp, st, p in results:
        txt = open(logp, errors='replace').read()
        m = re.search(r'<<"DONE", (\d+)>>', txt)
        nlines = sum(1 for _ in open(p))
        if st['rc'] != 0 or not m or int(m.group(1)) != nlines:
            tail = sh('grep -v \'^<<"\' %s | tail -25' % logp).stdout
            raise MachineryError('TLC judge %s did not consume its trace (%s of %d lines, rc=%s)\n%s'
                                 % (module, m.group(1) if m else '?', nlines, st['rc'], tail))
        events += nlines
        for line in txt.splitlines():
            fm = FAIL_RE.match(line)
            if fm:
                mons = set(x.strip().strip('"') for x in fm.group(3).split(',') if x.strip())
                fails.append((fm.group(2), int(fm.group(1)), mons))
                continue
            nm = NOTE_RE.match(line)
            if nm and nm.group(1) == 'COUNT':
                try:
                    k, v = nm.group(2).rsplit(',', 1)
                    counts[k.strip().strip('"')] = counts.get(k.strip().strip('"'), 0) + int(v)
                except Exception:
                    pass
    for p in chunks:
        os.remove(p)
    return {'events': events, 'fails': fails, 'counts': counts, 'dropped_lines': bad}


# ---------------------------------------------------------------- cases / replay
def load_cases(path):
    d = {}
    with open(path) as f:
        for line in f:
            line = line.strip()
            if line:
                c = json.loads(line)
                d[c['id']] = line
    return d


def write_replay(pid, case_lines, n=0):
    d = os.path.join(OUT, 'replay')
    os.makedirs(d, exist_ok=True)
    p = os.path.join(d, '%s-%d.ndjson' % (pid, n))
    with open(p, 'w') as f:
        for l in case_lines:
            f.write(l + '\n')
    return p


# ---------------------------------------------------------------- known findings
def known_findings():
    p = os.path.join(VERIF, 'known_findings.json')
    if not os.path.exists(p):
        return []
    return json.load(open(p)).get('findings', [])


# ---------------------------------------------------------------- evidence
def write_evidence(pid, tier, seed, level, coverage, assumptions, wall_s, violations):
    ev = {'property_id': pid, 'tier': tier, 'seed': seed, 'level': level, 'coverage': coverage,
          'assumptions': assumptions, 'wall_s': round(wall_s, 1), 'violations': violations}
    d = os.path.join(OUT, 'evidence') if os.environ.get('VERIF_OUT') else os.path.join(VERIF, 'evidence')
    os.makedirs(d, exist_ok=True)
    with open(os.path.join(d, pid + '.json'), 'w') as f:
        json.dump(ev, f, indent=1, sort_keys=True)
        f.write('\n')
    return ev
