#!/usr/bin/env python3
"""Writes MANIFEST.json from the property table of vlib/stages.py (kept in one place so it cannot drift)."""
import json
import os
import subprocess
import sys

VERIF = os.path.dirname(os.path.dirname(os.path.abspath(__file__)))
sys.path.insert(0, VERIF)
from vlib import stages  # noqa: E402

LEVEL_TEXT = {
    'model_checking': 'TLC checks the property as an invariant on bounded configurations of the TLA+ specification (exhaustive '
                      'inside the stated bounds); every transition of those state graphs plus seeded random cases at realistic '
                      'sizes are executed on the real code and the recorded trace is judged by TLC against the same '
                      'specification with the same property formula. Bounded, not a proof.',
    'exploration': 'The specification supplies structured inputs, expected outputs and the functional half of the statement '
                   '(judged by TLC on recorded traces); the memory-level half is observed by the execution substrate (guard '
                   'pages, ASan/UBSan, TSan, memcheck). Sampled, not exhaustive.',
}

ALL = ['C%02d' % i for i in range(1, 21)]
NA_REASON = 'machinery for this property is not built yet in this revision (see DESIGN.md section 4 for the plan)'


def main():
    hooks = subprocess.run(['git', '-C', '/repo', 'log', '--format=%H %s'], stdout=subprocess.PIPE, universal_newlines=True).stdout
    hook_commits = [l.split()[0] for l in hooks.splitlines() if ' verif hook' in l]
    checks = []
    for pid in ALL:
        if pid not in stages.PROPS:
            continue
        P = stages.PROPS[pid]
        checks.append({
            'property_id': pid,
            'quick_cmd': 'python3 check.py %s --tier quick' % pid,
            'thorough_cmd': 'python3 check.py %s --tier thorough' % pid,
            'evidence_file': 'evidence/%s.json' % pid,
            'replay_cmd_template': 'python3 check.py %s --replay {path}' % pid,
            'engine': 'tla-trace',
            'level_claimed': {'category': P['level'], 'text': LEVEL_TEXT[P['level']], 'design_ref': 'DESIGN.md section 4, ' + pid},
            'level_note': '; '.join(P['assumptions']),
            'technique': P.get('technique', 'TLA+ specification model-checked with TLC; TLC-generated behaviours replayed on the real '
                                            'code; recorded traces validated by TLC against the specification'),
        })
    m = {
        'version': 1,
        'setup_cmd': 'python3 check.py --setup',
        'hooks': {'guard': 'ASAM_CMP_VERIF',
                  'enable': 'check.py compiles /repo/src/*.cpp with -DASAM_CMP_VERIF together with harness/*.cpp (g++ / clang++)',
                  'baseline_off_cmd': 'cmake --build /repo/_build && ctest --test-dir /repo/_build -j8 --timeout 900',
                  'source_commits': hook_commits, 'add_only': True},
        'engines': [{'name': 'tla-trace', 'path': 'check.py', 'serves_properties': [c['property_id'] for c in checks],
                     'kind_free_text': 'explicit TLA+ specification (spec/*.tla) checked with TLC; edge dumps of the state graphs and '
                                       'seeded generators drive harness/exec (real library, hooks on); the calls of the repository\'s own test suite and example '
                                       'program are recorded as well (ld --wrap); TLC judges the recorded traces; two inductive invariants are '
                                       'discharged by Apalache'}],
        'checks': checks,
        'not_applicable': [{'property_id': p, 'reason': stages.NOT_APPLICABLE.get(p, NA_REASON)} for p in ALL if p not in stages.PROPS],
        'notes': 'All checks share check.py; exit 2 = machinery failure (never a VIOLATION). known_findings.json lists genuine '
                 'defects that were found (all repaired by fix: commits so far).',
    }
    with open(os.path.join(VERIF, 'MANIFEST.json'), 'w') as f:
        json.dump(m, f, indent=1)
        f.write('\n')
    print('MANIFEST.json: %d checks, %d not applicable' % (len(checks), len(m['not_applicable'])))


if __name__ == '__main__':
    main()
