"""Seeded random operation sequences on stores of packets / payloads (cases for harness/exec, component "val")."""
import copy
import json
import random

import wire


def rand_packet(rng):
    r = rng.random()
    base = {'dev': rng.randrange(65536), 'st': rng.randrange(256), 'ver': rng.randrange(1, 256), 'seq': rng.randrange(65536),
            'ts': wire.rbytes(rng, 8), 'ifid': wire.rbytes(rng, 4), 'vid': rng.randrange(65536), 'fl': rng.randrange(256) & ~0x0C,
            'seg': rng.randrange(4)}
    if r < 0.12:
        base['empty'] = True
        return base
    if r < 0.18:
        # a payload of type invalid (what the decoder returns for a message that fails validation), any length
        base.update({'mt': 0, 'pt': 0, 'pl': [0] * rng.choice([0, 1, 16, 40])})
        return base
    if r < 0.3:
        mt, pt = rng.choice([(1, 1), (1, 2), (1, 3), (1, 8), (3, 1), (1, 255), (2, 5)])
        base.update({'mt': mt, 'pt': pt, 'pl': []})
        return base
    p = wire.packet(rng, rng.choice(wire.KINDS), rng.choice([1, 1, 2, 8, 20, 40, 300]))
    base.update({'mt': p['mt'], 'pt': p['pt'], 'pl': p['pl']})
    return base


def variant(rng, p):
    """An equal-looking or nearly equal packet."""
    q = copy.deepcopy(p)
    r = rng.random()
    if r < 0.3:
        return q
    if r < 0.5 and q.get('pl'):
        k = rng.randrange(len(q['pl']))
        q['pl'][k] ^= 1 << rng.randrange(8)
    elif r < 0.7:
        f = rng.choice(['dev', 'st', 'ver', 'seq', 'vid', 'fl', 'seg', 'ifid', 'ifid'])
        if f == 'ifid':
            q['ifid'] = list(q['ifid'])
            q['ifid'][rng.randrange(4)] ^= 1 << rng.randrange(8)
        else:
            q[f] = (q[f] + 1) % (4 if f == 'seg' else 256)
    elif r < 0.8 and 'pt' in q:
        q['pt'] = (q['pt'] % 255) + 1
    elif r < 0.9 and 'mt' in q:
        q['mt'] = rng.choice([x for x in (1, 2, 3, 255) if x != q['mt']])     # same payload type byte, another message type
    else:
        q['ts'] = wire.rbytes(rng, 8)
    return q


def gen(seed, nepisodes, prefix='r', kind='packet'):
    rng = random.Random(seed)
    for i in range(nepisodes):
        n = rng.choice([2, 3, 4, 6])
        ops = []
        first = rand_packet(rng)
        live = {}
        has_payload = {}
        for k in range(1, n + 1):
            p = first if k == 1 else (variant(rng, first) if rng.random() < 0.6 else rand_packet(rng))
            if kind != 'packet' and p.get('empty'):
                p = {'mt': 1, 'pt': 1, 'pl': []}
            ops.append({'op': 'make', 'slot': k, 'pkt': p})
            live[k] = True
            has_payload[k] = not p.get('empty')
        nxt = n + 1
        for _ in range(rng.choice([10, 30, 60])):
            r = rng.random()
            good = [k for k in live if live[k]]
            if not good:
                break
            s = rng.choice(good)
            d = rng.choice(list(live))
            if r < 0.15:
                ops.append({'op': 'copy', 'dst': nxt, 'src': s})
                live[nxt] = True
                has_payload[nxt] = has_payload.get(s)
                nxt += 1
            elif r < 0.25:
                ops.append({'op': 'move', 'dst': nxt, 'src': s})
                live[nxt] = True
                has_payload[nxt] = has_payload.get(s)
                live[s] = False
                nxt += 1
            elif r < 0.5:
                ops.append({'op': 'assign', 'dst': d, 'src': s})
                live[d] = True
                has_payload[d] = has_payload.get(s)
            elif r < 0.6 and d != s:
                ops.append({'op': 'massign', 'dst': d, 'src': s})
                live[d] = True
                has_payload[d] = has_payload.get(s)
                live[s] = False
            elif r < 0.64 and kind == 'packet' and has_payload.get(s):
                ops.append({'op': 'selfset', 'slot': s})
            elif r < 0.68 and kind == 'packet' and has_payload.get(s) and d != s:
                # copy / assign while a reference to the source's payload is held, then write through it (round7b-4)
                ops.append({'op': 'copyref', 'dst': nxt if rng.random() < 0.5 else d, 'src': s, 'assign': True,
                            'ptvia': rng.randrange(1, 256)})
                if ops[-1]['dst'] == nxt:
                    nxt += 1
                live[ops[-1]['dst']] = True
                has_payload[ops[-1]['dst']] = True
            elif r < 0.75:
                if kind == 'packet':
                    m = {'op': 'mutate', 'slot': s, 'ts': wire.rbytes(rng, 8), 'fl': rng.randrange(256)}
                    if has_payload.get(s) and rng.random() < 0.4:
                        m['ptvia'] = rng.randrange(1, 256)        # mutate the payload through getPayload()
                    ops.append(m)
                else:
                    ops.append({'op': 'mutate', 'slot': s, 'pt': rng.randrange(1, 256)})
            else:
                ops.append({'op': 'eq', 'a': s, 'b': rng.choice(good)})
        yield {'id': '%s%d' % (prefix, i), 'comp': 'val', 'kind': kind, 'ops': ops}


def bit_sweep(seed, nepisodes, prefix='e', kind='packet'):
    """Equality against every single-bit variant of a value (and one byte more / less of payload): x == y must be
    false for each of them, in both directions, and != its negation (round6b-4: a comparison that drops some bits)."""
    rng = random.Random(seed)
    widths = [('dev', 16), ('st', 8), ('ver', 8), ('seq', 16), ('vid', 16), ('fl', 8), ('seg', 2), ('pt', 8)]
    for i in range(nepisodes):
        base = rand_packet(rng)
        while base.get('empty') or not base.get('pl') or base.get('mt') == 0:
            base = rand_packet(rng)
        base['pl'] = base['pl'][:rng.choice([1, 4, 24])]
        if kind != 'packet':
            base = {'mt': base['mt'], 'pt': base['pt'], 'pl': base['pl']}
        ops = [{'op': 'make', 'slot': 1, 'pkt': base}]
        variants = []
        for f, w in widths:
            if f in base:
                for b in range(w):
                    q = copy.deepcopy(base)
                    q[f] ^= 1 << b
                    if f == 'pt' and q[f] == 0:
                        continue
                    variants.append(q)
        for f in ('ts', 'ifid'):
            if f in base:
                for b in range(8 * len(base[f])):
                    q = copy.deepcopy(base)
                    q[f] = list(q[f])
                    q[f][b // 8] ^= 0x80 >> (b % 8)
                    variants.append(q)
        for b in range(8 * len(base['pl'])):
            q = copy.deepcopy(base)
            q['pl'][b // 8] ^= 0x80 >> (b % 8)
            variants.append(q)
        q = copy.deepcopy(base)
        q['pl'] = q['pl'] + [0]
        variants.append(q)
        if len(base['pl']) > 1:
            q = copy.deepcopy(base)
            q['pl'] = q['pl'][:-1]
            variants.append(q)
        for other in (1, 2, 3, 255):
            if other != base['mt']:
                q = copy.deepcopy(base)
                q['mt'] = other
                variants.append(q)
        for q in variants:
            ops.append({'op': 'make', 'slot': 2, 'pkt': q})
            ops.append({'op': 'eq', 'a': 1, 'b': 2})
        ops.append({'op': 'copy', 'dst': 3, 'src': 1})
        ops.append({'op': 'eq', 'a': 1, 'b': 3})
        yield {'id': '%s%d' % (prefix, i), 'comp': 'val', 'kind': kind, 'ops': ops}


def write(path, episodes):
    n = 0
    with open(path, 'w') as f:
        for e in episodes:
            f.write(json.dumps(e, separators=(',', ':')) + '\n')
            n += 1
    return n
