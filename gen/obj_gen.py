"""Setter sweeps and builder calls on header / payload objects (cases for harness/exec, component "obj").
The field tables come from spec/Layout.tla (printed by TLC from MC_Layout): one source of truth."""
import json
import random


def be(v, n):
    return [(v >> (8 * (n - 1 - i))) & 0xFF for i in range(n)]


def in_range(cls, f, v):
    if f['n'] == 'sampleDt':
        return v in (0, 1)
    if f['n'] == 'segMask':
        return v in (0, 3)
    if cls == 'packet' and f['n'] == 'segmentType':
        return v < 4
    return True


def values(rng, cls, f, tier, exhaustive16=False):
    w = f['w']
    full = (1 << w) - 1
    if w <= 8 or (w <= 16 and tier == 'thorough' and exhaustive16):
        vals = list(range(1 << w))
        rng.shuffle(vals)
    else:
        vals = [0, 1, full, full - 1, 1 << (w - 1), (1 << (w - 1)) - 1]
        vals += [1 << k for k in range(w)] + [full ^ (1 << k) for k in range(w)]
        vals += [rng.getrandbits(w) for _ in range(48 if tier == 'quick' else 400)]
    return [v for v in vals if in_range(cls, f, v)]


def background(rng, size, kind):
    n = size + 2
    if kind == 'zeros':
        return [0] * n
    if kind == 'ones':
        return [255] * n
    return [rng.randrange(256) for _ in range(n)]


def settable(table, cls):
    t = table[cls]
    return [f for f in t['fields'] if f['n'] not in t['nosetter']]


def fix_background(cls, bg):
    # in-range prior states only: the 2 bit sample datatype of an analog header is 0 or 1, a packet's segment type 0..3
    if cls == 'analog':
        bg[1] &= 0xFD
    if cls == 'packet':
        bg[21] &= 3
    return bg


def sweeps(table, seed, tier, prefix='s'):
    rng = random.Random(seed)
    n = 0
    kinds = ['zeros', 'ones', 'random', 'random'] + (['random'] * 3 if tier == 'thorough' else [])
    for cls in sorted(table):
        size = table[cls]['size']
        for f in settable(table, cls):
            for ki, kind in enumerate(kinds):
                bg = fix_background(cls, background(rng, size, kind))
                ops = [{'op': 'load', 'cls': cls, 'raw': bg}]
                nb = (f['w'] + 7) // 8
                # thorough: all 65536 values of a 16 bit field on one random prior state, samples on the others
                for v in values(rng, cls, f, tier, exhaustive16=(ki == 2)):
                    ops.append({'op': 'set', 'cls': cls, 'f': f['n'], 'v': be(v, nb)})
                yield {'id': '%s%d' % (prefix, n), 'comp': 'obj', 'ops': ops}
                n += 1


def chains(table, seed, tier, prefix='m'):
    """Mixed sequences of setters on one object from a random prior state, and set / clear chains of flag pairs."""
    rng = random.Random(seed + 99)
    n = 0
    reps = 6 if tier == 'quick' else 60
    for cls in sorted(table):
        size = table[cls]['size']
        fs = settable(table, cls)
        for _ in range(reps):
            bg = fix_background(cls, background(rng, size, 'random'))
            ops = [{'op': 'load', 'cls': cls, 'raw': bg}]
            for _ in range(80):
                f = rng.choice(fs)
                w = f['w']
                v = rng.choice([0, (1 << w) - 1, rng.getrandbits(w), rng.getrandbits(w)])
                if not in_range(cls, f, v):
                    v = v & 1
                if f['n'] == 'segMask':
                    v = 3 * (v & 1)
                ops.append({'op': 'set', 'cls': cls, 'f': f['n'], 'v': be(v, (w + 7) // 8)})
            yield {'id': '%s%d' % (prefix, n), 'comp': 'obj', 'ops': ops}
            n += 1
        flags = [f for f in fs if f['w'] == 1]
        pairs = [(a, b) for a in flags for b in flags if a['n'] != b['n']]
        rng.shuffle(pairs)
        for a, b in pairs[:(30 if tier == 'quick' else 400)]:
            bg = fix_background(cls, background(rng, size, rng.choice(['zeros', 'ones', 'random'])))
            ops = [{'op': 'load', 'cls': cls, 'raw': bg}]
            for f, v in ((a, 1), (b, 1), (a, 0), (b, 0), (b, 1), (a, 1), (b, 0), (a, 0)):
                ops.append({'op': 'set', 'cls': cls, 'f': f['n'], 'v': [v]})
            yield {'id': '%s%d' % (prefix, n), 'comp': 'obj', 'ops': ops}
            n += 1
    # the two-bit mask flag from every state of its two bits (round7b-3: "already has the requested value")
    for cls in sorted(table):
        if any(f['n'] == 'segMask' for f in settable(table, cls)):
            for kind in ('zeros', 'ones', 'random'):
                ops = [{'op': 'load', 'cls': cls, 'raw': fix_background(cls, background(rng, table[cls]['size'], kind))}]
                for fl in (0x04, 0x08, 0x0C, 0x00, 0xF7, 0xFB):
                    for v in (3, 0):
                        ops.append({'op': 'set', 'cls': cls, 'f': 'commonFlags', 'v': [fl]})
                        ops.append({'op': 'set', 'cls': cls, 'f': 'segMask', 'v': [v]})
                yield {'id': '%s%d' % (prefix, n), 'comp': 'obj', 'ops': ops}
                n += 1
    for cls in sorted(table):
        yield {'id': '%sn%s' % (prefix, cls), 'comp': 'obj', 'ops': [{'op': 'new', 'cls': cls}]}


def nonul(rng, n):
    return [rng.randrange(1, 256) for _ in range(n)]


def build_args(rng, cls, tier):
    big = tier == 'thorough'
    if cls in ('can', 'canfd', 'lin', 'tecmpLin'):
        n = rng.choice([0, 1, 2, 7, 8, 9, 12, 15, 16, 20, 24, 32, 48, 63, 64, 65, 100, 254, 255, rng.randrange(256)])
        return {'data': [rng.randrange(256) for _ in range(n)]}
    if cls == 'eth':
        n = rng.choice([0, 1, 2, 14, 59, 60, 64, 1500, 1514] + ([9000, 65529] if big else []))
        return {'data': [rng.randrange(256) for _ in range(n)]}
    if cls == 'analog':
        n = rng.choice([0, 4, 8, 12, 64, 1000, 1, 2, 3, 5, 6, 7, 9, 10, 11, 13, 999, 1001, 1002] + ([65528, 65529, 65527] if big else []))
        return {'data': [rng.randrange(256) for _ in range(n)]}
    if cls == 'cm':
        ln = lambda: rng.choice([0, 1, 2, 3, 4, 5, 6, 17, 100, 253, 254, 255, 256, 300] + ([1000, 32000] if big else []))
        return {'desc': nonul(rng, ln()), 'serial': nonul(rng, ln()), 'hw': nonul(rng, ln()), 'sw': nonul(rng, ln()),
                'vendor': [rng.randrange(256) for _ in range(rng.choice([0, 1, 2, 3, 255, 256, 300, 700]))]}
    if cls == 'if':
        return {'ids': [rng.randrange(256) for _ in range(rng.choice([0, 1, 2, 3, 4, 5, 255, 256, 257, 600]))],
                'vendor': [rng.randrange(256) for _ in range(rng.choice([0, 1, 2, 3, 200, 256, 513]))]}
    raise ValueError(cls)


BUILDERS = ['can', 'canfd', 'lin', 'eth', 'analog', 'cm', 'if', 'tecmpLin']
HDR_SIZE = {'can': 16, 'canfd': 16, 'lin': 8, 'eth': 6, 'analog': 16, 'cm': 26, 'if': 36, 'tecmpLin': 2}


def builds(table, seed, tier, prefix='b'):
    """Builder calls on fresh objects and on objects that already hold longer / shorter / different data and
    non-zero header fields, interleaved with header setters."""
    rng = random.Random(seed + 5)
    n = 0
    reps = 25 if tier == 'quick' else 400
    for cls in BUILDERS:
        fs = settable(table, cls)
        for _ in range(reps):
            if rng.random() < 0.3:
                ops = [{'op': 'new', 'cls': cls}]
            else:
                bg = [rng.randrange(256) for _ in range(HDR_SIZE[cls] + rng.choice([0, 3, 40, 300]))]
                if cls == 'cm':
                    bg = bg[:26] + [0] * 10
                if cls == 'if':
                    bg = bg[:36] + [0] * 4
                if rng.random() < 0.6:
                    # a prior header without bus-error flags and with enumerated fields in range: the result must be accepted
                    if cls in ('can', 'canfd'):
                        bg[0] &= 0xFC
                        bg[1] = 0
                        bg[12] = bg[13] = 0
                    if cls == 'eth':
                        bg[1] &= 0xC4
                    if cls == 'lin':
                        bg[1] = 0
                    if cls == 'if':
                        bg[29] = rng.randrange(3)
                same = None
                if cls in ('can', 'canfd', 'lin', 'eth', 'tecmpLin') and rng.random() < 0.35:
                    # a received-looking prior state: the size and the length field agree with each other, the other
                    # length-dependent bytes (DLC) need not; the first build then supplies data of exactly that length
                    # ("same length as before" shortcuts, round6a-4)
                    same = rng.choice([0, 1, 8, 12, 20, 64])
                    bg = bg[:HDR_SIZE[cls]] + [rng.randrange(256) for _ in range(same)]
                    # the length field says what is there - or less than what is there (bytes behind the data, as a
                    # receiver may see them): a build of exactly the present size must still rewrite it (round8c-1)
                    declared = same if rng.random() < 0.6 else rng.randrange(same + 1)
                    if cls in ('can', 'canfd'):
                        bg[15] = declared
                        bg[14] = rng.choice([0, 15, rng.randrange(16)])
                    elif cls == 'lin':
                        bg[7] = declared
                    elif cls == 'tecmpLin':
                        bg[1] = declared
                    else:
                        bg[4], bg[5] = declared >> 8, declared & 255
                ops = [{'op': 'load', 'cls': cls, 'raw': fix_background(cls, bg)}]
                if same is not None:
                    ops.append({'op': 'setData', 'data': [rng.randrange(256) for _ in range(same)]})
            for _ in range(rng.choice([1, 2, 4, 6])):
                if rng.random() < 0.5:
                    f = rng.choice(fs)
                    v = rng.getrandbits(f['w'])
                    if not in_range(cls, f, v):
                        v &= 1
                    if f['n'] == 'segMask':
                        v = 3 * (v & 1)
                    ops.append({'op': 'set', 'cls': cls, 'f': f['n'], 'v': be(v, (f['w'] + 7) // 8)})
                a = build_args(rng, cls, tier)
                a['op'] = 'setData'
                ops.append(a)
            yield {'id': '%s%d' % (prefix, n), 'comp': 'obj', 'ops': ops}
            n += 1


def rebuilds_same_size(seed, prefix='q'):
    """Received-looking prior states (size = header + n; the length field says n, n - 1 or 0; DLC arbitrary) followed
    by a build of exactly n bytes and then one of another length: shortcuts for "same size as before" (round6a-4, round8c-1)."""
    rng = random.Random(seed + 6)
    k = 0
    for cls in ('can', 'canfd', 'lin', 'eth', 'tecmpLin'):
        for n in (1, 8, 64):
            for declared in (n, n - 1, 0):
                bg = [rng.randrange(256) for _ in range(HDR_SIZE[cls] + n)]
                if cls in ('can', 'canfd'):
                    bg[0] &= 0xFC
                    bg[1] = 0
                    bg[12] = bg[13] = 0
                    bg[15] = declared
                    bg[14] = rng.choice([0, 15, 3])
                elif cls == 'lin':
                    bg[1] = 0
                    bg[7] = declared
                elif cls == 'tecmpLin':
                    bg[1] = declared
                else:
                    bg[1] &= 0xC4
                    bg[4], bg[5] = declared >> 8, declared & 255
                ops = [{'op': 'load', 'cls': cls, 'raw': fix_background(cls, bg)},
                       {'op': 'setData', 'data': [rng.randrange(256) for _ in range(n)]},
                       {'op': 'setData', 'data': [rng.randrange(256) for _ in range(n)]},
                       {'op': 'setData', 'data': [rng.randrange(256) for _ in range(max(0, n - 1))]}]
                yield {'id': '%s%d' % (prefix, k), 'comp': 'obj', 'ops': ops}
                k += 1


def rawhdrs(seed, n, prefix='h'):
    """Packets whose rendered raw CMP / message headers are compared with the layout."""
    import wire
    rng = random.Random(seed + 77)
    for i in range(n):
        ops = []
        for _ in range(20):
            p = wire.packet(rng, rng.choice(wire.KINDS), rng.choice([1, 8, 40, 300]), rng.randrange(1, 256))
            p['fl'] = rng.randrange(256)
            p['dev'], p['st'], p['seq'] = rng.randrange(65536), rng.randrange(256), rng.randrange(65536)
            ops.append({'op': 'rawhdr', 'pkt': p})
        yield {'id': '%s%d' % (prefix, i), 'comp': 'obj', 'ops': ops}


def write(path, episodes):
    n = 0
    with open(path, 'w') as f:
        for e in episodes:
            f.write(json.dumps(e, separators=(',', ':')) + '\n')
            n += 1
    return n
