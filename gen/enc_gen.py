"""Seeded random encoder histories at realistic sizes (cases for harness/exec, component "enc")."""
import json
import random

import wire


def pick_len(rng, ctx_max, big):
    """Payload length: log-uniform with extra mass at the fit / no-fit boundaries of this frame size."""
    r = rng.random()
    cap = 65535 if big else 4000
    if r < 0.35:
        base = rng.choice([ctx_max - 24, ctx_max - 24, 2 * (ctx_max - 24), 3 * (ctx_max - 24), (ctx_max - 8) // 2 - 16])
        return max(1, min(cap, base + rng.randrange(-2, 3)))
    if r < 0.45:
        return rng.randrange(1, 4)
    hi = rng.choice([16, 64, 300, 1500, cap])
    return rng.randrange(1, hi + 1)


def pick_ctx(rng, big):
    r = rng.random()
    if r < 0.3:
        mx = rng.randrange(25, 64)
    elif r < 0.6:
        mx = rng.choice([64, 100, 128, 256, 512, 1400, 1500, 1518, 9000])
    elif r < 0.9 or not big:
        mx = rng.randrange(64, 2000)
    else:
        mx = rng.choice([65535, 65558, 65559, rng.randrange(9000, 65560)])
    mn = rng.choice([0, 0, 64, mx, rng.randrange(0, mx + 1), min(mx, 60)])
    return {'min': min(mn, mx), 'max': mx}


def batch(rng, ctx, npk, big, budget):
    ver = rng.choice([1, 1, 1, 2, 7, 255])
    out = []
    same_type_run = rng.random() < 0.5
    for _ in range(npk):
        kind = rng.choice(wire.KINDS)
        if same_type_run and rng.random() < 0.7:
            kind = rng.choice(['can', 'lin', 'eth', 'analog', 'canfd'])
        n = pick_len(rng, ctx['max'], big)
        # keep the judge's work bounded: frames per call and bytes per event
        per_frame = max(1, ctx['max'] - 24)
        if n // per_frame > 1200:
            n = per_frame * rng.randrange(2, 1200)
        n = min(n, max(1, budget))
        p = wire.packet(rng, kind, n, ver)
        if rng.random() < 0.5:
            # packets that carry ids of their own (e.g. decoded elsewhere and re-encoded): the encoder's ids must win
            p['dev'], p['st'], p['seq'] = rng.randrange(1, 65536), rng.randrange(1, 256), rng.randrange(65536)
        budget -= len(p['pl'])
        out.append(p)
        if budget <= 0:
            break
    return out


def gen(seed, nepisodes, prefix='r', big=True, hist=False):
    rng = random.Random(seed)
    for i in range(nepisodes):
        # ids from a small pool per episode, so that a history comes back to an id it used before
        devs = [rng.choice([0, rng.randrange(65536)]) for _ in range(rng.choice([1, 2, 3]))]
        streams = [rng.choice([0, rng.randrange(256)]) for _ in range(rng.choice([1, 2, 3]))]
        ops = [{'op': 'init', 'dev': devs[0], 'stream': streams[0], 'seq': 0}]
        ncalls = rng.choice([1, 1, 2, 3, 5] + ([8, 12] if hist else []))
        pset = 0.5 if hist else 0.2
        for _ in range(ncalls):
            while rng.random() < pset:
                r = rng.random()
                if r < 0.4:
                    ops.append({'op': 'setDev', 'v': rng.choice(devs + [rng.randrange(65536)])})
                elif r < 0.8:
                    ops.append({'op': 'setStream', 'v': rng.choice(streams + [rng.randrange(256)])})
                else:
                    ops.append({'op': 'restart'})
            if hist and rng.random() < 0.15:
                ops.append({'op': 'recopy'})           # the encoder copied in the middle of its life, the copy used from here on
            ctx = pick_ctx(rng, big)
            npk = rng.choice([1, 1, 2, 3, 5, 8, 20, 40])
            b = batch(rng, ctx, npk, big, 150000)
            ov = rng.randrange(3)
            if rng.random() < 0.08:
                # packets of the undefined message type (0) that fit into a frame, e.g. re-encoded after decoding a type-0 frame
                small = wire.packet(rng, 'generic', rng.randrange(1, max(2, min(40, ctx['max'] - 24))))
                small['mt'], small['ver'] = 0, b[0]['ver'] if b else 1
                b = [small] + [p for p in b if 16 + len(p['pl']) <= ctx['max'] - 8][:2]
            ops.append({'op': 'encode', 'batch': b, 'ctx': ctx, 'ov': ov})
        yield {'id': '%s%d' % (prefix, i), 'comp': 'enc', 'ops': ops}


def extremes(prefix='x'):
    """The largest payloads the length field admits, unsegmented and segmented."""
    rng = random.Random(99)
    k = 0
    for n in (65535, 65534, 65521, 65520, 65519, 65518):
        for mx in (65559, 65558, 65535, 9000, 1500):
            p = wire.packet(rng, 'generic', n)
            p['pl'] = [(j * 7 + n) % 256 for j in range(n)]
            q = wire.packet(rng, 'generic', 5)
            q['ver'] = p['ver']
            ops = [{'op': 'init', 'dev': 1, 'stream': 1, 'seq': 0},
                   {'op': 'encode', 'batch': [p, q] if k % 2 else [p], 'ctx': {'min': 0, 'max': mx}, 'ov': k % 3, 'fresh': False}]
            yield {'id': '%s%d' % (prefix, k), 'comp': 'enc', 'ops': ops}
            k += 1


def wrap_history(prefix='w', ncalls=70, seq0=0, tag='0'):
    """A history that wraps the 16 bit counter through the public API only: calls of 1000 frames each
    (1000 byte payload, one byte per frame at max = 25), logged in full.  With seq0 != 0 the executor first
    warms the encoder up to that counter with one-frame calls (not judged), so a short history crosses the wrap."""
    rng = random.Random(4711)
    ops = [{'op': 'init', 'dev': 513, 'stream': 9, 'seq': seq0}]
    for k in range(ncalls):
        p = wire.packet(rng, 'generic', 1000)
        p['pl'] = [(k + j) % 256 for j in range(1000)]
        ops.append({'op': 'encode', 'batch': [p], 'ctx': {'min': 0, 'max': 25}, 'ov': k % 3, 'decode': k == 0})
    return {'id': prefix + tag, 'comp': 'enc', 'ops': ops}


def write(path, episodes):
    n = 0
    with open(path, 'w') as f:
        for e in episodes:
            f.write(json.dumps(e, separators=(',', ':')) + '\n')
            n += 1
    return n
