"""Seeded random buffers for the validity checks and accessors (cases for harness/exec, component "vld")."""
import json
import random

import dec_gen
import wire

KINDS = ['can', 'canfd', 'lin', 'eth', 'analog', 'cm', 'if']


def buffers(seed, n, prefix='r'):
    rng = random.Random(seed)
    per = 40
    for i in range(n):
        ops = []
        for _ in range(per):
            kind = rng.choice(KINDS)
            r = rng.random()
            if r < 0.08 and kind in ('eth', 'cm', 'if'):
                # one 16 bit inner length at the top of its range, zeros behind it: reads as "nothing more" to a
                # validator whose sum or padding wraps in 16 bits (round6c-1)
                b = wire.rbytes(rng, wire.HDR[kind]) + [0] * rng.choice([2, 4, 6, 10, 12])
                if kind == 'if':
                    b[29] = rng.randrange(3)
                at = {'eth': [4], 'cm': [26, 28, 30, 32, 34], 'if': [36, 38]}[kind]
                o = rng.choice([x for x in at if x + 2 <= len(b)])
                top = rng.choice([0xFFFF, 0xFFFE, 0xFFFD, 0xFFFC, 0xFF00])
                b[o], b[o + 1] = top >> 8, top & 255
            elif r < 0.3:
                b = wire.rbytes(rng, rng.randrange(0, wire.HDR[kind] + 12))
            elif r < 0.4 and kind in ('eth', 'cm', 'if'):
                # inner lengths that need the high byte of their 16 bit field, the buffer cut anywhere
                if kind == 'eth':
                    b = wire.eth_payload(rng, rng.choice([255, 256, 257, 300, 512, 700]))
                elif kind == 'cm':
                    lens = [rng.choice([0, 3, 254, 255, 256, 300, 511, 600]) for _ in range(4)]
                    b = wire.cm_payload(rng, lens, wire.rbytes(rng, rng.choice([0, 2, 255, 256, 400])))
                else:
                    b = wire.if_payload(rng, rng.choice([0, 5, 255, 256, 257, 511, 600]), rng.choice([0, 3, 256, 300]))
                if rng.random() < 0.7:
                    b = b[:rng.randrange(wire.HDR[kind], len(b) + 1)]
            elif r < 0.55:
                b = wire.typed_payload(rng, kind, rng.choice([wire.HDR[kind], wire.HDR[kind] + 1, 40, 64, 300]))
            elif r < 0.8:
                b = dec_gen.inconsistent(rng, kind)
            else:
                b = wire.typed_payload(rng, kind, rng.choice([20, 44, 90]))
                for _ in range(rng.choice([1, 1, 2, 4])):
                    if b:
                        k = rng.randrange(len(b))
                        b[k] = rng.choice([0, 1, 0xFF, rng.randrange(256)])
                if rng.random() < 0.4:
                    b = b[:rng.randrange(0, len(b) + 1)]
            ops.append({'op': 'valid', 'kind': kind, 'bytes': b})
            if rng.random() < 0.3:
                # the same bytes as a message: header + payload, with the length field at / around what is there
                mt, pt = wire.KIND_TYPE[kind]
                p = {'mt': mt, 'pt': rng.choice([pt, pt, 0, 0xFF]), 'ts': wire.rbytes(rng, 8), 'ifid': wire.rbytes(rng, 4), 'vid': 1,
                     'fl': rng.choice([0, 0, 0x40, 0x0C, 0xFF])}
                declared = rng.choice([max(0, min(65535, len(b) + rng.choice([0, 0, 0, -1, 1, 5, 60000]))), 0xFFFF, 0xFFF0, 0xFFEF, 0xFFF8])
                msg = wire.msg_header(p, 0, declared) + b
                if rng.random() < 0.2:
                    msg = msg[:rng.randrange(0, 17)]
                ops.append({'op': 'validmsg', 'mt': mt, 'bytes': msg})
        yield {'id': '%s%d' % (prefix, i), 'comp': 'vld', 'ops': ops}


def write(path, episodes):
    n = 0
    with open(path, 'w') as f:
        for e in episodes:
            f.write(json.dumps(e, separators=(',', ':')) + '\n')
            n += 1
    return n
