"""Seeded random decoder traffic at realistic sizes (cases for harness/exec, component "dec").

streams(): well-formed senders on several endpoints, interleaved; with annotations of what was sent and what
           C05 expects each call to deliver; optionally with faults (C06: drop, duplicate, swap, corrupt
           version / type of continuation segments).
anyhist(): arbitrary buffers: well-formed frames, mutated fields, truncations, TECMP, undersized (C17, C18, C02).
frames():  frames of unsegmented messages of every payload kind with consistent and inconsistent inner
           lengths, truncated and zero padded, fed to a decoder that has a history (C04).
"""
import json
import random

import wire


# endpoints that differ in one field only, or that coincide under a careless key (dev | st << 8, dev ^ st, dev + st,
# dev & 0xFF, st alone)
ENDPOINT_FAMILY = [(0x0103, 0x02), (0x0003, 0x03), (0x0003, 0x02), (0x0302, 0x01), (0x0002, 0x03), (0x0005, 0x00), (0x0000, 0x05),
                   (0x0100, 0x00), (0x0000, 0x01), (0xFFFF, 0xFF), (0x0000, 0x00), (0xFFFF, 0x00), (0x00FF, 0xFF)]


def Kind_typed(mt, pt):
    return (mt == 1 and pt in (1, 2, 3, 7, 8)) or (mt == 3 and pt in (1, 2))


def logical(rng, kind, total, ver):
    p = wire.packet(rng, kind, total, ver)
    p['fl'] &= ~0x4C          # no segment bits, no error-in-payload
    return p


def split_sizes(rng, n, cap, equal):
    """Segment sizes for a payload of n bytes (at least two segments)."""
    if equal:
        sizes = []
        left = n
        while left > cap:
            sizes.append(cap)
            left -= cap
        sizes.append(left)
        if len(sizes) == 1:
            sizes = [n // 2, n - n // 2]
        return sizes
    k = rng.choice([2, 2, 3, 4, 6, 10])
    cuts = sorted(rng.randrange(0, n + 1) for _ in range(k - 1))
    sizes = [b - a for a, b in zip([0] + cuts, cuts + [n])]
    return sizes


class Sender:
    def __init__(self, rng, dev, st, ctr0):
        self.rng, self.dev, self.st, self.ctr = rng, dev, st, ctr0
        self.ver = rng.choice([1, 1, 2, 9, 255])

    def frame(self, mt, body):
        self.ctr = (self.ctr + 1) & 0xFFFF
        return wire.frame_header(self.ver, self.dev, mt, self.st, self.ctr) + body

    def message_frames(self, rng, big, small=False):
        """Frames of the next message(s) of this sender: [(frame, meta)]"""
        r = rng.random() if not small else 0.9          # small: one short segmented message per sender
        out = []
        if r < 0.35:
            # one frame with 1..4 unsegmented messages of one message type
            mt_kind = rng.choice(['data', 'status'])
            kinds = ['can', 'canfd', 'lin', 'eth', 'analog', 'generic'] if mt_kind == 'data' else ['cm', 'if']
            msgs = []
            for _ in range(rng.choice([1, 1, 2, 3, 4])):
                p = logical(rng, rng.choice(kinds), rng.choice([8, 20, 40, 100, 400]), self.ver)
                if mt_kind == 'data' and p['mt'] != 1:
                    p['mt'], p['pt'] = 1, 0xFF
                msgs.append(p)
            body = []
            for p in msgs:
                body += wire.msg_header(p, 0, len(p['pl'])) + p['pl']
            if rng.random() < 0.3:
                body += [0] * rng.randrange(1, 40)
            sent = [{'ep': [self.dev, self.st], 'p': p} for p in msgs]
            out.append((self.frame(msgs[0]['mt'], body), {'sent': sent, 'deliver': [msgs], 'seg': 0}))
        else:
            kind = rng.choice(['eth', 'analog', 'generic', 'generic', 'cm', 'if'])
            total = rng.choice([30, 200, 1500, 4000, 20000, 65535]) if big else (rng.choice([30, 200, 900]) if not small else 40)
            p = logical(rng, kind, total, self.ver)
            n = len(p['pl'])
            cap = rng.choice([64, 1476, 8976])
            while n // cap > 24:                  # keep the logged pending buffers (quadratic in the segment count) bounded
                cap *= 2
            sizes = split_sizes(rng, n, cap, rng.random() < 0.5)
            if rng.random() < 0.15:
                sizes.insert(rng.randrange(1, len(sizes) + 1), 0)      # a zero-length segment
            off = 0
            lead = []
            if rng.random() < 0.15:
                # one or two unsegmented messages in front of the first segment, in the same frame
                for _ in range(rng.choice([1, 2])):
                    q = logical(rng, 'generic', rng.choice([1, 8, 30]), self.ver)
                    q['mt'] = p['mt']
                    if Kind_typed(q['mt'], q['pt']):
                        q['pt'] = 0x42
                    lead.append(q)
            for k, sz in enumerate(sizes):
                seg = 1 if k == 0 else (3 if k == len(sizes) - 1 else 2)
                ph = p
                if k > 0 and rng.random() < 0.3:
                    # a continuation segment whose header differs from the first segment's (flags, timestamp, ids):
                    # the reassembled message keeps the first segment's header
                    ph = dict(p)
                    ph['fl'] = (p['fl'] ^ rng.choice([0x01, 0x02, 0x10, 0x20, 0x80])) & ~0x4C
                    ph['ts'] = wire.rbytes(rng, 8)
                    ph['ifid'] = wire.rbytes(rng, 4)
                    ph['vid'] = rng.randrange(65536)
                body = wire.msg_header(ph, seg, sz) + p['pl'][off:off + sz]
                if k == 0 and lead:
                    pre = []
                    for q in lead:
                        pre += wire.msg_header(q, 0, len(q['pl'])) + q['pl']
                    body = pre + body
                off += sz
                t = rng.random()
                if t < 0.15:
                    body += wire.rbytes(rng, rng.randrange(1, 30))        # bytes after the declared length
                elif t < 0.3:
                    body += [0] * rng.randrange(1, 64)                    # zero padding
                last = seg == 3
                meta = {'sent': [{'ep': [self.dev, self.st], 'p': p}] if last else [],
                        'deliver': [[p] if last else []], 'seg': seg}
                if k == 0 and lead:
                    meta['sent'] = [{'ep': [self.dev, self.st], 'p': q} for q in lead] + meta['sent']
                    meta['deliver'] = [list(lead)]
                out.append((self.frame(p['mt'], body), meta))
        return out


def streams(seed, nepisodes, prefix, faults=False, big=True):
    rng = random.Random(seed)
    for i in range(nepisodes):
        nend = rng.choice([1, 2, 3, 4, 6, 40, 100, 300])      # many: the table is rehashed / outgrows any small cap while messages are open
        eps = set(rng.sample(ENDPOINT_FAMILY, min(nend, 3)))
        while len(eps) < nend:
            eps.add((rng.choice([1, 2, 513, 65535, rng.randrange(65536)]), rng.choice([0, 1, 7, 255, rng.randrange(256)])))
        senders = [Sender(rng, d, s, rng.choice([0, 100, 65530, 65533, 65534, 65535])) for d, s in sorted(eps)]
        queues = []
        budget = 120000
        for s in senders:
            q = []
            for _ in range(rng.choice([2, 4, 8]) if nend < 40 else 1):
                fr = s.message_frames(rng, big and nend < 40, small=(nend >= 40))
                budget -= sum(len(f) for f, _ in fr)
                q += fr
                if budget < 0:
                    break
            queues.append(q)
        ops = [{'op': 'new'}]
        nfault = 0
        held = [None] * len(senders)
        # with many endpoints every sender first opens its message, so that all of them are in progress at once
        opening = list(range(len(senders))) if nend >= 40 else []
        rng.shuffle(opening)
        while any(queues):
            k = opening.pop() if opening else rng.choice([j for j, q in enumerate(queues) if q])
            if not queues[k]:
                continue
            frame, meta = queues[k].pop(0)
            meta = dict(meta)
            meta['ep'] = k
            if faults:
                meta['deliver'] = []
                r = rng.random()
                cont = meta['seg'] in (2, 3)
                if r < 0.08:
                    ops.append({'op': 'sent', 'msgs': meta['sent'], 'fault': 'drop'})
                    nfault += 1
                    if rng.random() < 0.35 and queues[k]:
                        # a burst: this frame and the next 255 (or 511) frames of the sender are lost, so the next frame that
                        # arrives carries a counter that continues the run modulo 256 only.  Frames that never arrive need not
                        # be rendered: the frames still queued are re-stamped with the counters they would have had.
                        jump = rng.choice([255, 511])
                        for q in range(len(queues[k])):
                            f2, m2 = queues[k][q]
                            c2 = ((f2[6] << 8 | f2[7]) + jump) & 0xFFFF
                            queues[k][q] = (f2[:6] + [c2 >> 8, c2 & 0xFF] + f2[8:], m2)
                        ops.append({'op': 'sent', 'msgs': [], 'fault': 'burst%d' % (jump + 1)})
                    continue
                if r < 0.14 and held[k] is None:
                    held[k] = (frame, meta)
                    ops.append({'op': 'sent', 'msgs': meta['sent'], 'fault': 'hold'})
                    nfault += 1
                    continue
                if r < 0.20 and cont:
                    frame = list(frame)
                    frame[0] = (frame[0] % 250) + 3           # another version
                    meta['fault'] = 'ver'
                elif r < 0.26 and cont:
                    frame = list(frame)
                    frame[4] = 3 if frame[4] == 1 else 1      # another message type
                    meta['fault'] = 'mt'
                ops.append({'op': 'decode', 'in': frame, 'meta': meta})
                if r > 0.92:
                    m2 = dict(meta)
                    m2['sent'] = []
                    m2['fault'] = 'dup'
                    ops.append({'op': 'decode', 'in': frame, 'meta': m2})
                if held[k] is not None and rng.random() < 0.7:
                    f2, m2 = held[k]
                    held[k] = None
                    m2 = dict(m2)
                    m2['sent'] = []
                    m2['fault'] = 'rel'
                    ops.append({'op': 'decode', 'in': f2, 'meta': m2})
            else:
                ops.append({'op': 'decode', 'in': frame, 'meta': meta})
        yield {'id': '%s%d' % (prefix, i), 'comp': 'dec', 'solo': True, 'ops': ops}


def slow_stream(seed, prefix='W', counts=(300, 1300)):
    """A slow endpoint next to busy ones: its segmented message stays open while hundreds or thousands of frames of
    other endpoints pass (unsegmented traffic and whole segmented messages, so that first segments arrive meanwhile);
    every one of its own frames arrives, in order - the message must be delivered (C05 / C17 / C18; round5a-8,
    round10a-3: reassemblies dropped after N frames of others)."""
    rng = random.Random(seed + 41)
    for i, nforeign in enumerate(counts):
        slow = Sender(rng, 0x0140, 9, rng.choice([5, 65533]))
        others = [Sender(rng, d, st, rng.choice([0, 65000])) for d, st in ((0x0140, 8), (0x0141, 9), (7, 7))]
        p = logical(rng, 'generic', 90, slow.ver)
        sizes = [30, 30, 30]
        ops = [{'op': 'new'}]
        off = 0
        for k, sz in enumerate(sizes):
            seg = 1 if k == 0 else (3 if k == len(sizes) - 1 else 2)
            body = wire.msg_header(p, seg, sz) + p['pl'][off:off + sz]
            off += sz
            last = seg == 3
            ops.append({'op': 'decode', 'in': slow.frame(p['mt'], body),
                        'meta': {'ep': 0, 'seg': seg, 'sent': [{'ep': [slow.dev, slow.st], 'p': p}] if last else [],
                                 'deliver': [[p] if last else []]}})
            if last:
                break
            # the others talk: mostly small unsegmented frames, now and then a whole segmented message
            for j in range(nforeign):
                o = others[j % len(others)]
                if j % 97 == 50:
                    q = logical(rng, 'generic', 40, o.ver)
                    for kk, (a, b) in enumerate(((0, 20), (20, 40))):
                        sg = 1 if kk == 0 else 3
                        ops.append({'op': 'decode', 'in': o.frame(q['mt'], wire.msg_header(q, sg, b - a) + q['pl'][a:b]),
                                    'meta': {'ep': 1 + j % len(others), 'seg': sg,
                                             'sent': [{'ep': [o.dev, o.st], 'p': q}] if sg == 3 else [], 'deliver': [[q] if sg == 3 else []]}})
                else:
                    q = logical(rng, 'generic', 4, o.ver)
                    ops.append({'op': 'decode', 'in': o.frame(q['mt'], wire.msg_header(q, 0, 4) + q['pl']),
                                'meta': {'ep': 1 + j % len(others), 'seg': 0, 'sent': [{'ep': [o.dev, o.st], 'p': q}], 'deliver': [[q]]}})
        yield {'id': '%s%d' % (prefix, i), 'comp': 'dec', 'solo': True, 'ops': ops}


def encoder_streams(seed, nepisodes, prefix, faults=False):
    """Frames produced by real encoders (2..4 endpoints, also the same device with another stream, counters near
    the wrap), interleaved into one decoder; optionally with drop / duplicate / hold-release faults."""
    import enc_gen
    rng = random.Random(seed)
    for i in range(nepisodes):
        n = rng.choice([2, 3, 4])
        pairs = [(7, 1), (7, 2), (8, 1), (65535, 255)][:n]
        ops = [{'op': 'new'}]
        for k, (d, s) in enumerate(pairs):
            ops.append({'op': 'enc.new', 'enc': k, 'dev': d, 'stream': s, 'seq': rng.choice([0, 0, 65530, 65534])})
        pending = []
        for k in range(n):
            for _ in range(rng.choice([1, 2, 3])):
                ctx = {'min': rng.choice([0, 0, 64]), 'max': rng.choice([40, 64, 100, 300, 1500])}
                b = enc_gen.batch(rng, ctx, rng.choice([1, 2, 4]), False, 3000)
                for p in b:
                    p['fl'] &= ~0x4C
                ops.append({'op': 'enc.encode', 'enc': k, 'batch': b, 'ctx': ctx})
                nfr = sum(max(1, -(-len(p['pl']) // max(1, ctx['max'] - 24))) for p in b) + len(b)
                pending += [k] * nfr
        rng.shuffle(pending)
        for k in pending:
            r = rng.random()
            meta = {'ep': k, 'sent': []}
            if faults and r < 0.06:
                ops.append({'op': 'drop', 'enc': k, 'fault': 'drop'})
            elif faults and r < 0.10:
                ops.append({'op': 'hold', 'enc': k, 'fault': 'hold'})
            else:
                ops.append({'op': 'feed', 'enc': k, 'meta': meta})
                if faults and r > 0.94:
                    ops.append({'op': 'refeed', 'enc': k, 'meta': {'ep': k, 'sent': [], 'fault': 'dup'}})
                if faults and rng.random() < 0.3:
                    ops.append({'op': 'release', 'enc': k, 'meta': {'ep': k, 'sent': [], 'fault': 'rel'}})
        yield {'id': '%s%d' % (prefix, i), 'comp': 'dec', 'solo': True, 'ops': ops}


def large(seed, prefix='L'):
    """Reassembled sizes at the top of the 16 bit length field."""
    rng = random.Random(seed)
    for i, total in enumerate([65535, 65534, 65520, 65519]):
        s = Sender(rng, 0x0103, 0xFF, 65530)
        p = logical(rng, 'generic', total, s.ver)
        p['pl'] = [(7 * j + total) % 256 for j in range(total)]
        n = 12
        cuts = [total * k // n for k in range(n + 1)]
        ops = [{'op': 'new'}]
        for k in range(n):
            seg = 1 if k == 0 else (3 if k == n - 1 else 2)
            body = wire.msg_header(p, seg, cuts[k + 1] - cuts[k]) + p['pl'][cuts[k]:cuts[k + 1]]
            last = seg == 3
            ops.append({'op': 'decode', 'in': s.frame(p['mt'], body),
                        'meta': {'ep': 0, 'seg': seg, 'sent': [{'ep': [s.dev, s.st], 'p': p}] if last else [], 'deliver': [[p] if last else []]}})
        yield {'id': '%s%d' % (prefix, i), 'comp': 'dec', 'solo': True, 'hook': False, 'ops': ops}


def large_after_fault(seed, prefix='M'):
    """C06 recovery at the top of the size range: a message that loses a frame, then a complete message of
    65520..65535 bytes on the same endpoint (round6b-2: a size guard that counts the stored header)."""
    rng = random.Random(seed)
    for i, total in enumerate([65535, 65520, 65527, 65519]):
        s = Sender(rng, 0x0204, 3, rng.choice([0, 65500]))
        ops = [{'op': 'new'}]
        for which, (tot, n, lost) in enumerate([(6000, 5, 2), (total, 45, None)]):
            p = logical(rng, 'generic', tot, s.ver)
            p['pl'] = [(11 * j + tot + which) % 256 for j in range(tot)]
            cuts = [tot * k // n for k in range(n + 1)]
            for k in range(n):
                seg = 1 if k == 0 else (3 if k == n - 1 else 2)
                body = wire.msg_header(p, seg, cuts[k + 1] - cuts[k]) + p['pl'][cuts[k]:cuts[k + 1]]
                f = s.frame(p['mt'], body)
                if k == lost:
                    continue                                     # lost on the way (the counter has moved on)
                last = seg == 3
                ok = last and lost is None
                ops.append({'op': 'decode', 'in': f,
                            'meta': {'ep': 0, 'seg': seg, 'fault': 'drop' if lost is not None and k > lost else 'none',
                                     'sent': [{'ep': [s.dev, s.st], 'p': p}] if last else [], 'deliver': [[p] if ok else []]}})
        yield {'id': '%s%d' % (prefix, i), 'comp': 'dec', 'solo': True, 'hook': False, 'ops': ops}


def mutate(rng, frame):
    f = list(frame)
    if not f:
        return f
    r = rng.random()
    if r < 0.25:
        return f[:rng.randrange(0, len(f) + 1)]                          # truncation at any offset
    if r < 0.5:
        k = rng.choice([0, 4, 5, 6, 7, 20, 21, 22, 23]) if len(f) > 24 else rng.randrange(len(f))
        f[k] = rng.choice([0, 1, 0xFF, f[k] ^ 0x40, f[k] ^ 0x0C, rng.randrange(256)])
        return f
    if r < 0.65:
        return f + [0] * rng.randrange(1, 40)
    if r < 0.8:
        k = rng.randrange(len(f))
        f[k] = rng.randrange(256)
        return f
    return f


def tecmp_frame(rng):
    mt = rng.choice([0, 1, 2, 3, 3, 3, 4, 0x0A, 0x55, 0xFF])
    dt = rng.choice([2, 3, 4, 8, 0x10, 0x20, 0x80, 0x55, 0xFF00])
    n = rng.choice([0, 1, 4, 5, 8, 12, 13, 24, 36, 40, 64])
    payload = wire.rbytes(rng, n)
    if mt == 3 and dt in (2, 3) and n >= 5:
        payload[4] = rng.choice([0, 1, 8, n - 5, n - 4, 12, 64, 255])
    plen = rng.choice([n, n, n, 0, n + 1, max(0, n - 1), 0xFFFF])
    hdr = [0, rng.randrange(256)] + wire.be(rng.randrange(65536), 2) + [3, mt] + wire.be(dt, 2) + [0, 0] + \
        wire.be(rng.randrange(65536), 2) + wire.rbytes(rng, 4) + wire.rbytes(rng, 8) + wire.be(plen, 2) + wire.be(0, 2)
    return hdr + payload


def tecmp_good(rng):
    """A TECMP message of a supported kind with arbitrary field values; mostly consistent, sometimes with an inner
    length that does not fit.  No bytes beyond the declared payload (the property does not say what they mean)."""
    r = rng.random()
    bad = rng.random() < 0.25
    if r < 0.3:
        mt, dt = 3, rng.choice([2, 3])
        n = rng.choice([0, 1, 2, 7, 8, 9, 12, 16, 32, 63, 64, rng.randrange(65)])
        have = n - rng.choice([1, 2, n]) if bad and n > 0 else n
        p = wire.rbytes(rng, 4) + [n] + wire.rbytes(rng, max(0, have))
        if not bad:
            p += wire.rbytes(rng, rng.choice([0, 0, 2, 3, 4]))
        elif rng.random() < 0.3:
            p = p[:rng.randrange(1, 5)]                 # shorter than the arbitration id and length byte
    elif r < 0.5:
        mt, dt = 3, 4
        n = rng.choice([0, 1, 2, 8, rng.randrange(65), 253, 254, 255])       # also the longest lengths the field admits (round9c-2)
        have = n - rng.choice([1, n]) if bad and n > 0 else n
        p = [rng.randrange(256), n] + wire.rbytes(rng, max(0, have))
        if not bad and rng.random() < 0.7:
            p += [rng.randrange(256)]
        elif bad and rng.random() < 0.3:
            p = p[:1]                                   # the protected id alone
    elif r < 0.7:
        mt, dt = 2, rng.choice([0, 2, 0x55, 0x00FF, 0x0100, 0xFFFF, rng.randrange(0xFF00)])
        k = rng.choice([0, 1, 2, 9, 40, rng.randrange(41)])
        entries = [wire.rbytes(rng, 12) for _ in range(k)]
        if k >= 2 and rng.random() < 0.4:                # several entries for one interface id (round5b-8)
            for _ in range(rng.randrange(1, k)):
                a, b = rng.randrange(k), rng.randrange(k)
                entries[a][0:4] = entries[b][0:4]
        if k >= 1 and rng.random() < 0.05:
            entries = [[0] * 12 for _ in range(k)]       # a zero-filled entry table
        p = wire.rbytes(rng, 12) + [x for e in entries for x in e] + wire.rbytes(rng, rng.choice([0, 0, 5, 11]))
        if bad:
            p = p[:rng.randrange(0, 12)]
    elif r < 0.9:
        mt, dt = 1, rng.choice([0, 2, 0x00FF, 0x0100, 0xFFFF, rng.randrange(0xFF00)])
        p = wire.rbytes(rng, rng.choice([36, 36, 40, 46, 60]))
        if rng.random() < 0.5:
            p[4:6] = wire.be(rng.choice([0, 5, 6, 23, 24, 25, len(p) - 12]), 2)      # the declared vendor data length
        if bad:
            p = p[:rng.randrange(1, 36)]                # shorter than the 36 byte structure, whatever it declares (round8a-2)
    else:
        mt = rng.choice([0, 3, 3, 4, 0x0A, 0x33, 0xFF])
        dt = rng.choice([8, 0x10, 0x20, 0x80, 0x55, 0xFF00, rng.randrange(65536)])
        p = wire.rbytes(rng, rng.choice([1, 5, 20, 64]))
    plen = len(p)
    if rng.random() < 0.1:
        plen = rng.choice([0, plen + 1, 0xFFFF])
    hdr = [0, rng.randrange(256)] + wire.rbytes(rng, 2) + [rng.randrange(256), mt] + wire.be(dt, 2) + wire.rbytes(rng, 4) + \
        wire.rbytes(rng, 4) + wire.rbytes(rng, 8) + wire.be(plen, 2) + wire.rbytes(rng, 2)
    f = hdr + p
    if rng.random() < 0.08:
        f = f[:rng.randrange(0, len(f))]
    return f


def tecmp(seed, nepisodes, prefix):
    rng = random.Random(seed)
    for i in range(nepisodes):
        ops = [{'op': 'new'}]
        prev = None
        for _ in range(40):
            f = tecmp_good(rng)
            r = rng.random()
            if prev is not None and r < 0.12:
                f = list(prev)                                   # the same message again
            elif prev is not None and r < 0.24 and len(prev) > 29:
                # the previous message with one payload byte changed: same device, same serial number, another
                # version / counter / data byte (a conversion remembered from the message before, round8a-1)
                f = list(prev)
                k = rng.randrange(28, len(f))
                f[k] = (f[k] + rng.randrange(1, 256)) & 255
            elif prev is not None and r < 0.4 and len(f) >= 4 and len(prev) >= 4:
                f[1:4] = prev[1:4]                               # another message with the same device id and counter
            prev = f
            if rng.random() < 0.3:
                ops.append({'op': 'tdecode', 'in': f})        # the static TECMP decoder, directly
            else:
                ops.append({'op': 'decode', 'in': f, 'pendBefore': True})
        yield {'id': '%s%d' % (prefix, i), 'comp': 'dec', 'ops': ops}


def anyhist(seed, nepisodes, prefix, tecmp=True):
    rng = random.Random(seed)
    for i in range(nepisodes):
        senders = [Sender(rng, d, s, rng.choice([0, 65533, 65535])) for d, s in rng.sample(ENDPOINT_FAMILY, 3)]
        ops = [{'op': 'new'}]
        pool = []
        for s in senders:
            for _ in range(4):
                pool += [(f, s) for f, _ in s.message_frames(rng, False)]
        rng.shuffle(pool) if rng.random() < 0.3 else None
        for f, s in pool:
            r = rng.random()
            if r < 0.55:
                ops.append({'op': 'decode', 'in': f})
            elif r < 0.85:
                ops.append({'op': 'decode', 'in': mutate(rng, f)})
            elif r < 0.868:
                # a continuation segment on an endpoint that has nothing open, in a frame whose header looks like a
                # value-initialised one (version 1, message type 0, counter 0 / 1), also with no payload (round9a-5)
                q = wire.packet(rng, 'generic', rng.choice([0, 0, 1, 5]))
                q['mt'] = 0
                q['fl'] &= ~0x4C
                body = wire.msg_header(q, rng.choice([2, 3]), len(q['pl'])) + q['pl']
                ops.append({'op': 'decode', 'in': wire.frame_header(1, rng.choice([s.dev, rng.randrange(65536)]), 0,
                                                                      rng.choice([s.st, rng.randrange(256)]), rng.choice([0, 1])) + body})
            elif r < 0.88:
                ops.append({'op': 'decode', 'in': wire.rbytes(rng, rng.choice([0, 1, 7, 8, 9, 23, 24, 25, 40])), 'pendBefore': True})
            elif r < 0.885 and len(f) > 24 and (f[20] & 0x0C) in (0x08, 0x0C):
                # an unsegmented message squeezed in front of a continuation segment, in the same frame
                q = wire.packet(rng, 'generic', 3)
                q['mt'] = f[4]
                q['fl'] &= ~0x4C
                if Kind_typed(q['mt'], q['pt']):
                    q['pt'] = 0x42
                ops.append({'op': 'decode', 'in': list(f[:8]) + wire.msg_header(q, 0, len(q['pl'])) + q['pl'] + list(f[8:])})
            elif r < 0.9:
                # a buffer that is no capture-module frame (leading 0x00) but whose bytes look like this endpoint's frame
                ops.append({'op': 'decode', 'in': [0] + list(f[1:rng.randrange(8, 28)]), 'pendBefore': True})
            elif tecmp and r < 0.96:
                ops.append({'op': 'decode', 'in': tecmp_frame(rng), 'pendBefore': True})
            else:
                ops.append({'op': 'decode', 'in': f})
                ops.append({'op': 'decode', 'in': f})
        yield {'id': '%s%d' % (prefix, i), 'comp': 'dec', 'solo': True, 'ops': ops}


# ------------------------------------------------------------------ C02
def arbitrary(seed, nepisodes, prefix, big=True):
    """Arbitrary byte strings of every length up to 64 KiB (random, CMP-looking, TECMP-looking, mutated well-formed
    frames), in histories on one decoder; packets are kept and re-read after the decoder is destroyed."""
    rng = random.Random(seed)
    for i in range(nepisodes):
        s = Sender(rng, rng.randrange(65536), rng.randrange(256), rng.choice([0, 65534]))
        ops = [{'op': 'new'}]
        budget = 300000
        if i % 10 == 3:
            # a message kept open while its segments add up to far more than the 16 bit length field can describe
            p = logical(rng, 'generic', 1400, s.ver)
            for k in range(rng.choice([50, 70, 100])):
                seg = 1 if k == 0 else 2
                ops.append({'op': 'decode', 'in': s.frame(p['mt'], wire.msg_header(p, seg, len(p['pl'])) + p['pl'])})
            budget -= 150000
        for _ in range(rng.choice([5, 20, 40])):
            r = rng.random()
            if r < 0.2:
                n = rng.choice([0, 1, 7, 8, 9, 23, 24, 25, 27, 28, 29, 40, 100, 1500] + ([9000, 65535, 65536] if big else []))
                b = wire.rbytes(rng, n)
                if n and rng.random() < 0.5:
                    b[0] = rng.choice([0, 1, 2])
            elif r < 0.4:
                b = tecmp_good(rng)
                if rng.random() < 0.5:
                    b = mutate(rng, b)
            elif r < 0.5:
                b = tecmp_frame(rng)
            else:
                fr = s.message_frames(rng, big and rng.random() < 0.2)
                f, _ = rng.choice(fr)
                b = mutate(rng, f) if rng.random() < 0.7 else f
                if rng.random() < 0.25 and len(b) > 24:
                    # a length field at an extreme
                    b = list(b)
                    if rng.random() < 0.5:
                        b[22:24] = rng.choice([[0xFF, 0xFF], [0xFF, 0xF0], [0xFF, 0xEF], [0xFF, 0xF8]])
                    else:
                        b[rng.choice([22, 23])] = rng.choice([0, 0xFF])
                    if rng.random() < 0.5:
                        b = b[:24 + rng.choice([0, 1, 16])]
            budget -= len(b)
            if budget < 0:
                break
            op = {'op': 'decode', 'in': b, 'place': rng.randrange(2)}
            if rng.random() < 0.03:
                op = {'op': 'decode', 'in': b, 'null': True}
            ops.append(op)
        yield {'id': '%s%d' % (prefix, i), 'comp': 'dec', 'recheck': True, 'ops': ops}


# ------------------------------------------------------------------ C04
def inconsistent(rng, kind):
    """Payloads whose inner structure disagrees with their length, or that carry bus-error flags."""
    r = rng.random()
    if kind in ('can', 'canfd'):
        if r < 0.3:
            return wire.can_payload(rng, 8, kind == 'canfd', datalen=rng.choice([9, 9 + rng.randrange(200), 254, 255]))
        if r < 0.5:
            return wire.can_payload(rng, 4, kind == 'canfd', flags=rng.choice([1 << rng.randrange(10), 0x3FF, 0x401, rng.randrange(1, 0x400)]))
        if r < 0.7:
            return wire.can_payload(rng, 4, kind == 'canfd', errpos=rng.randrange(1, 65536))
        return wire.can_payload(rng, 0)[:rng.randrange(0, 16)]
    if kind == 'lin':
        if r < 0.6:
            return wire.lin_payload(rng, 3, datalen=rng.choice([4, 4 + rng.randrange(200), 255]))
        return wire.lin_payload(rng, 0)[:rng.randrange(0, 8)]
    if kind == 'eth':
        if r < 0.4:
            return wire.eth_payload(rng, 10, datalen=rng.choice([11, 11 + rng.randrange(60000), 65529, 65530, 65534, 65535]))
        if r < 0.7:
            return wire.eth_payload(rng, 10, flags=rng.choice([1, 2, 8, 0x10, 0x20, 0x3B, 0x81, 0x48]))
        return wire.eth_payload(rng, 0)[:rng.randrange(0, 6)]
    if kind == 'analog':
        return wire.analog_payload(rng, 0)[:rng.randrange(0, 16)]
    if kind == 'cm':
        p = wire.cm_payload(rng)
        if r < 0.4:
            return p[:rng.randrange(0, len(p))]
        k = 26
        p[k], p[k + 1] = 0xFF, rng.randrange(256)       # first string length beyond the payload
        return p
    if kind == 'if':
        p = wire.if_payload(rng)
        if r < 0.4:
            return p[:rng.randrange(0, len(p))]
        if r < 0.7:
            p[36], p[37] = rng.randrange(1, 256), rng.randrange(256)   # stream-id count beyond the payload
            return p
        vo = 38 + wire_u16(p, 36) + wire_u16(p, 36) % 2
        if vo + 2 <= len(p):
            p[vo], p[vo + 1] = 0xFF, 0xF0
        return p
    return wire.rbytes(rng, 5)


def wire_u16(b, o):
    return b[o] * 256 + b[o + 1]


def frames(seed, nepisodes, prefix):
    rng = random.Random(seed)
    for i in range(nepisodes):
        s0 = Sender(rng, 77, 7, 65530)
        ops = [{'op': 'new'}]
        # a history: some traffic of another endpoint, possibly left in the middle of a reassembly
        for f, _ in s0.message_frames(rng, False)[:rng.randrange(0, 4)]:
            ops.append({'op': 'decode', 'in': f})
        for _ in range(12):
            mt = rng.choice([1, 1, 1, 3, 3, 2, 255, 0x7F])
            kinds = {1: ['can', 'canfd', 'lin', 'eth', 'analog', 'generic'], 3: ['cm', 'if', 'generic']}.get(mt, ['generic'])
            body = []
            for _ in range(rng.choice([0, 1, 1, 2, 3, 5])):
                kind = rng.choice(kinds)
                if kind == 'generic':
                    p = wire.packet(rng, 'generic', rng.randrange(1, 60))
                    p['mt'] = mt
                    if mt == 1 and p['pt'] in (1, 2, 3, 7, 8):
                        p['pt'] = 0x42
                    if mt == 3 and p['pt'] in (1, 2):
                        p['pt'] = 0x42
                elif rng.random() < 0.45:
                    m, t = wire.KIND_TYPE[kind]
                    p = {'mt': m, 'pt': t, 'ver': 1, 'ts': wire.rbytes(rng, 8), 'ifid': wire.rbytes(rng, 4),
                         'vid': rng.randrange(65536), 'fl': rng.choice([0, 1, 0x33, 0xB3]), 'pl': inconsistent(rng, kind)}
                else:
                    p = wire.packet(rng, kind, rng.choice([8, 16, 17, 24, 40, 41, 60, 300]))
                p['fl'] &= ~0x4C
                h = wire.msg_header(p, 0, len(p['pl']))
                # any field values: all 32 bits of the id word whatever the message type
                h[8:12] = wire.rbytes(rng, 4)
                body += h + p['pl']
            frame = wire.frame_header(rng.choice([1, 2, 0x7F, 0xFF]), rng.randrange(65536), mt, rng.randrange(256),
                                      rng.randrange(65536)) + body
            r = rng.random()
            if rng.random() < 0.08:
                # a last message whose declared length is at the top of the field (the frame ends long before)
                frame = frame + wire.rbytes(rng, 12) + [0, rng.choice([1, 0xFF])] + rng.choice([[0xFF, 0xFF], [0xFF, 0xF0], [0xFF, 0xEF]]) + \
                    wire.rbytes(rng, rng.choice([0, 1, 16, 40]))
            if r < 0.25 and len(frame) > 8:
                frame = frame[:rng.randrange(8, len(frame) + 1)]          # cut short
            elif r < 0.5:
                frame = frame + [0] * rng.randrange(1, 48)                # zero padding
            ops.append({'op': 'decode', 'in': frame})
        yield {'id': '%s%d' % (prefix, i), 'comp': 'dec', 'solo': True, 'ops': ops}


def bit_sweep(seed, prefix):
    """Every single-bit change of the inner header of a consistent payload of each typed kind, one message per frame:
    each flag bit, each bit of an inner length, error position, enumeration byte on its own."""
    rng = random.Random(seed)
    bases = {'can': [wire.can_payload(rng, 3, False, flags=0), wire.can_payload(rng, 0, False, flags=0x3C00)],
             'canfd': [wire.can_payload(rng, 5, True, flags=0), wire.can_payload(rng, 64, True, flags=0x3000)],
             'lin': [wire.lin_payload(rng, 2, flags=0), wire.lin_payload(rng, 8, flags=0x0100)],
             'eth': [wire.eth_payload(rng, 9, flags=0), wire.eth_payload(rng, 300, flags=0x80)],
             'analog': [wire.analog_payload(rng, 6, dt=0), wire.analog_payload(rng, 8, dt=1)],
             'cm': [wire.cm_payload(rng, [3, 0, 5, 2], [1, 2, 3]), wire.cm_payload(rng, [0, 0, 0, 0], [])],
             'if': [wire.if_payload(rng, 3, 2, 0), wire.if_payload(rng, 0, 0, 2), wire.if_payload(rng, 4, 0, 1)]}
    for kind, bl in bases.items():
        m, t = wire.KIND_TYPE[kind]
        for bi, base in enumerate(bl):
            ops = [{'op': 'new'}]
            nbits = 8 * min(len(base), wire.HDR[kind] + 8)
            for bit in [None] + list(range(nbits)):
                pl = list(base)
                if bit is not None:
                    pl[bit // 8] ^= 0x80 >> (bit % 8)
                p = {'mt': m, 'pt': t, 'ver': 1, 'ts': [0, 1, 2, 3, 4, 5, 6, bi], 'ifid': [0, 0, 0, 9], 'vid': 0x1234, 'fl': 0, 'pl': pl}
                frame = wire.frame_header(1, 5, m, 2, bit or 0) + wire.msg_header(p, 0, len(pl)) + pl
                ops.append({'op': 'decode', 'in': frame})
            yield {'id': '%s-%s%d' % (prefix, kind, bi), 'comp': 'dec', 'solo': True, 'ops': ops}


def write(path, episodes):
    n = 0
    with open(path, 'w') as f:
        for e in episodes:
            f.write(json.dumps(e, separators=(',', ':')) + '\n')
            n += 1
    return n
