"""Builders of well-formed payloads, messages and frames as plain byte lists (case generation only:
nothing here judges anything)."""
import random

MT_DATA, MT_CONTROL, MT_STATUS, MT_VENDOR = 1, 2, 3, 255


def be(v, n):
    return [(v >> (8 * (n - 1 - i))) & 0xFF for i in range(n)]


def rbytes(rng, n):
    return [rng.randrange(256) for _ in range(n)]


def can_payload(rng, n, fd=False, flags=None, errpos=0, datalen=None):
    fl = rng.choice([0, 0x0400, 0x0800, 0x1000, 0x2000, 0x3C00]) if flags is None else flags
    ident = rng.getrandbits(32)
    crc = rng.getrandbits(32)
    dl = n if datalen is None else datalen
    return be(fl, 2) + [0, 0] + be(ident, 4) + be(crc, 4) + be(errpos, 2) + [rng.randrange(16), dl & 0xFF] + rbytes(rng, n)


def lin_payload(rng, n, flags=None, datalen=None):
    fl = rng.choice([0, 0x0100]) if flags is None else flags
    dl = n if datalen is None else datalen
    return be(fl, 2) + [0, 0] + [rng.randrange(256), 0, rng.randrange(256), dl & 0xFF] + rbytes(rng, n)


def eth_payload(rng, n, flags=None, datalen=None):
    fl = rng.choice([0, 0x04, 0x40, 0x80, 0xC4]) if flags is None else flags
    dl = n if datalen is None else datalen
    return be(fl, 2) + [0, 0] + be(dl & 0xFFFF, 2) + rbytes(rng, n)


def analog_payload(rng, n, dt=None):
    dt = rng.choice([0, 1]) if dt is None else dt
    return be(dt, 2) + [0, rng.randrange(0x55)] + rbytes(rng, 12) + rbytes(rng, n)


def str_field(s):
    n = len(s) + 1
    m = n + (n % 2)
    return be(m, 2) + list(s) + [0] * (m - len(s))


def text(rng, n):
    return [rng.randrange(0x20, 0x7F) for _ in range(n)]


def cm_payload(rng, lens=None, vendor=None):
    lens = lens or [rng.randrange(0, 12) for _ in range(4)]
    vendor = rbytes(rng, rng.randrange(0, 9)) if vendor is None else vendor
    hdr = rbytes(rng, 24) + [0, rng.randrange(256)]
    out = hdr
    for n in lens:
        out = out + str_field(text(rng, n))
    return out + be(len(vendor), 2) + vendor


def if_payload(rng, nids=None, nvendor=None, status=None):
    nids = rng.randrange(0, 7) if nids is None else nids
    nvendor = rng.randrange(0, 7) if nvendor is None else nvendor
    status = rng.randrange(3) if status is None else status
    hdr = rbytes(rng, 28) + [rng.randrange(256), status, 0, 0] + rbytes(rng, 4)
    ids = rbytes(rng, nids)
    return hdr + be(nids, 2) + ids + [0] * (nids % 2) + be(nvendor, 2) + rbytes(rng, nvendor)


KINDS = ['can', 'canfd', 'lin', 'analog', 'eth', 'cm', 'if', 'generic']
KIND_TYPE = {'can': (1, 1), 'canfd': (1, 2), 'lin': (1, 3), 'analog': (1, 7), 'eth': (1, 8), 'cm': (3, 1), 'if': (3, 2)}
HDR = {'can': 16, 'canfd': 16, 'lin': 8, 'analog': 16, 'eth': 6, 'cm': 36, 'if': 40}


def typed_payload(rng, kind, total):
    """A valid payload of the given kind whose total length is close to (and at most) total, if possible."""
    if kind in ('can', 'canfd'):
        n = max(0, min(total - 16, 255))
        return can_payload(rng, n, kind == 'canfd')
    if kind == 'lin':
        return lin_payload(rng, max(0, min(total - 8, 255)))
    if kind == 'eth':
        return eth_payload(rng, max(0, min(total - 6, 65529)))
    if kind == 'analog':
        return analog_payload(rng, max(0, min(total - 16, 65519)))
    if kind == 'cm':
        extra = max(0, total - 36 - 8)
        q = extra // 5
        return cm_payload(rng, [q, q, q, q], rbytes(rng, min(q, 60000)))
    if kind == 'if':
        extra = max(0, total - 40 - 1)
        return if_payload(rng, extra // 2, extra - extra // 2)
    raise ValueError(kind)


def packet(rng, kind, total, ver=1, err_free=True):
    """A logical packet (case format of the executor)."""
    if kind == 'generic':
        mt = rng.choice([1, 1, 2, 3, 255, 0x7F])
        pt = rng.choice([0xFF, 0x10, 0x42, 4, 5, 9, 3]) if mt != 1 else rng.choice([0xFF, 4, 5, 6, 9, 0x0A, 0x42])
        if mt == 3 and pt in (1, 2):
            pt = 3
        pl = rbytes(rng, max(1, total))
    else:
        mt, pt = KIND_TYPE[kind]
        pl = typed_payload(rng, kind, total)
    # any common flags without the error-in-payload bit: also with bits of the segmentation field set
    fl = rng.choice([0, 0, 1, 2, 3, 0x10, 0x20, 0x33, 0x80, 0xB3, 0x04, 0x08, 0x0C, 0xBF])
    return {'mt': mt, 'pt': pt, 'ver': ver, 'ts': rbytes(rng, 8), 'ifid': rbytes(rng, 4),
            'vid': rng.randrange(65536), 'fl': fl, 'pl': pl}


def msg_header(p, seg, n):
    if p['mt'] == 1:
        idb = p['ifid']
    elif p['mt'] in (3, 255):
        idb = [0, 0] + be(p['vid'], 2)
    else:
        idb = [0, 0, 0, 0]
    fl = (p['fl'] & ~0x0C) | (seg << 2)
    return p['ts'] + idb + [fl, p['pt']] + be(n, 2)


def frame_header(ver, dev, mt, stream, seq):
    return [ver, 0] + be(dev, 2) + [mt, stream] + be(seq & 0xFFFF, 2)
