"""Parsing of TLC output: statistics and the lines printed by PrintT from the specifications."""
import json
import re


def printed_tuples(path, tag):
    """Yield the payload strings of lines  <<"TAG", "...json..." >>  printed by PrintT."""
    prefix = '<<"%s", ' % tag
    with open(path, errors='replace') as f:
        for line in f:
            if not line.startswith(prefix):
                continue
            body = line.rstrip('\n')
            body = body[len(prefix):]
            if body.endswith('>>'):
                body = body[:-2]
            yield body


def printed_json(path, tag):
    """Lines <<"TAG", "<quoted json>">>: returns the decoded JSON values."""
    for body in printed_tuples(path, tag):
        try:
            yield json.loads(json.loads(body))
        except Exception:
            continue


def stats(path):
    """states generated / distinct states / depth from a TLC log; None if TLC did not finish."""
    txt = open(path, errors='replace').read()
    m = re.search(r'(\d[\d,]*) states generated, (\d[\d,]*) distinct states found', txt)
    res = {'finished': 'Model checking completed' in txt or 'Finished in' in txt,
           'error': None}
    if m:
        res['generated'] = int(m.group(1).replace(',', ''))
        res['distinct'] = int(m.group(2).replace(',', ''))
    sm = re.search(r'The number of states generated: (\d+)', txt)       # simulation mode
    if sm and 'generated' not in res:
        res['generated'] = res['distinct'] = int(sm.group(1))
        res['simulation'] = True
    d = re.search(r'depth of the complete state graph search is (\d+)', txt)
    if d:
        res['depth'] = int(d.group(1))
    e = re.search(r'Error: (.*)', txt)
    if e:
        res['error'] = e.group(1)
    return res
