"""Seeded random histories of the status tracker (cases for harness/exec, component "st")."""
import json
import random

import wire


def gen(seed, nepisodes, nops, prefix='r'):
    rng = random.Random(seed)
    for i in range(nepisodes):
        devs = rng.sample(range(0, 65536), rng.choice([1, 2, 3, 12])) + [0, 65535]
        last = devs[0]
        ifs = [wire.be(x, 4) for x in rng.sample(range(0, 2 ** 32), 6)] + [[0, 0, 0, 0], [255, 255, 255, 255]]
        ops = [{'op': 'new'}]
        for _ in range(nops):
            r = rng.random()
            # recency: the device that was touched last is touched again half of the time (remove then update again, ...)
            d = last if rng.random() < 0.5 else rng.choice(devs)
            last = d
            if r < 0.3:
                p = wire.packet(rng, 'cm', rng.choice([36, 60, 200]))
                p['dev'], p['st'] = d, rng.randrange(256)
                ops.append({'op': 'update', 'pkt': p})
            elif r < 0.65:
                p = wire.packet(rng, 'if', rng.choice([40, 50, 120]))
                p['pl'][0:4] = rng.choice(ifs)
                p['dev'], p['st'] = d, rng.randrange(256)
                ops.append({'op': 'update', 'pkt': p})
            elif r < 0.75:
                p = wire.packet(rng, rng.choice(['can', 'canfd', 'lin', 'eth', 'analog', 'generic']), 60)
                if rng.random() < 0.3:
                    p['mt'], p['pt'] = rng.choice([(2, 1), (2, 2), (255, 1), (255, 2), (0x7F, 2)])
                if p['mt'] == 3 and p['pt'] in (1, 2):
                    p['pt'] = 3
                p['dev'], p['st'] = d, 0
                ops.append({'op': 'update', 'pkt': p})
            elif r < 0.85:
                ops.append({'op': 'removeDev', 'dev': d})
            elif r < 0.98:
                ops.append({'op': 'removeIf', 'dev': d, 'ifid': rng.choice(ifs)})
            else:
                ops.append({'op': 'clear'})
        yield {'id': '%s%d' % (prefix, i), 'comp': 'st', 'probe': {'devs': devs + [7], 'ifs': ifs + [[1, 2, 3, 4]]}, 'ops': ops}


def write(path, episodes):
    n = 0
    with open(path, 'w') as f:
        for e in episodes:
            f.write(json.dumps(e, separators=(',', ':')) + '\n')
            n += 1
    return n
