----------------------------- MODULE MC_Frames -----------------------------
(* C04 at design level: for every capture-module frame made of a header and  *)
(* 0..MaxMsgs unsegmented messages drawn from a catalogue of payloads (every   *)
(* kind, consistent and inconsistent inner lengths, bus-error flags), every    *)
(* truncation of it and several zero paddings, the decoder specification       *)
(* returns exactly the messages the independent walker finds, field by field   *)
(* from the layout offsets, invalid where the payload must be invalid.  The    *)
(* decoder may already hold a pending reassembly for the endpoint (history).   *)
EXTENDS DecProps, TLC, Json

CONSTANTS MaxMsgs, Pads, Corrupt, DumpCases

VARIABLES pc, frame, pre, out, hist
vars == << pc, frame, pre, out, hist >>
View == << pc, frame, pre, out >>

D == INSTANCE Decoder WITH TecmpDecode <- LAMBDA b : << >>

B(n, v) == [j \in 1..n |-> (v + j) % 256]

(* payload catalogue: << message type, payload type, bytes >> *)
CanHdr(flags, errpos, dl) == BE16(flags) \o << 0, 0, 128, 0, 1, 35, 128, 0, 18, 52 >> \o BE16(errpos) \o << 2, dl >>
Catalogue == <<
    << 1, 1, CanHdr(0, 0, 2) \o << 7, 8 >> >>,                       \* CAN, consistent
    << 1, 1, CanHdr(0, 0, 3) \o << 7, 8 >> >>,                       \* CAN, data length beyond the payload
    << 1, 1, CanHdr(1, 0, 2) \o << 7, 8 >> >>,                       \* CAN, CRC error flag
    << 1, 1, CanHdr(0, 5, 2) \o << 7, 8 >> >>,                       \* CAN, error position
    << 1, 1, CanHdr(4096, 0, 0) >>,                                   \* CAN, no data, BRS flag (no error)
    << 1, 2, CanHdr(0, 0, 2) \o << 7, 8, 9 >> >>,                    \* CAN-FD, one byte more than declared
    << 1, 2, SubSeq(CanHdr(0, 0, 0), 1, 15) >>,                       \* CAN-FD, shorter than its header
    << 1, 3, << 0, 0, 0, 0, 60, 0, 99, 1, 5 >> >>,                    \* LIN, consistent
    << 1, 3, << 0, 0, 0, 0, 60, 0, 99, 2, 5 >> >>,                    \* LIN, data length beyond the payload
    << 1, 8, << 0, 128, 0, 0, 0, 2, 1, 2 >> >>,                       \* Ethernet, consistent (FCS-support flag)
    << 1, 8, << 0, 1, 0, 0, 0, 2, 1, 2 >> >>,                         \* Ethernet, FCS error
    << 1, 8, << 0, 0, 0, 0, 0, 9, 1, 2 >> >>,                         \* Ethernet, data length beyond the payload
    << 1, 7, << 0, 1, 0, 16 >> \o B(12, 40) \o << 1, 2, 3, 4 >> >>,  \* analog int32, consistent
    << 1, 7, << 0, 0, 0, 16 >> \o B(11, 40) >>,                       \* analog, shorter than its header
    << 1, 255, << 1, 2, 3 >> >>,                                      \* user defined
    << 1, 255, << >> >>,                                              \* empty payload
    << 3, 1, B(24, 0) \o << 0, 9 >> \o << 0, 2, 65, 0,  0, 2, 66, 0,  0, 2, 67, 0,  0, 2, 68, 0,  0, 1, 77 >> >>,   \* CM status, consistent
    << 3, 1, B(24, 0) \o << 0, 9 >> \o << 0, 2, 65, 0,  0, 2, 66, 0,  0, 2, 67, 0,  0, 2, 68, 0,  0, 2, 77 >> >>,   \* vendor data beyond the payload
    << 3, 1, B(24, 0) \o << 0, 9 >> \o << 0, 0, 0, 0 >> >>,           \* CM status, length fields missing
    << 3, 2, B(28, 0) \o << 1, 1, 0, 0, 0, 0, 0, 7 >> \o << 0, 1, 5, 0,  0, 1, 9 >> >>,      \* IF status, consistent (odd id count, padded)
    << 3, 2, B(28, 0) \o << 1, 1, 0, 0, 0, 0, 0, 7 >> \o << 0, 3, 5, 0,  0, 1, 9 >> >>,      \* stream ids beyond the payload
    << 3, 2, B(28, 0) \o << 1, 1, 0, 0, 0, 0, 0, 7 >> \o << 0, 0 >> >>,                       \* vendor length missing
    << 1, 1, << 0, 0, 0, 0, 128 >> >>,                                \* CAN, 5 bytes: far shorter than its header
    << 1, 3, << 0, 0, 0 >> >>,                                        \* LIN, 3 bytes
    << 1, 8, << 0, 0 >> >>,                                           \* Ethernet, 2 bytes
    << 1, 8, << 0, 0, 0, 0, 255, 255, 1, 2 >> >>,                     \* Ethernet, data length 65535
    << 1, 8, << 0, 0, 0, 0, 255, 250, 1, 2 >> >>,                     \* Ethernet, data length 65530 (length + header wraps 16 bit)
    << 1, 1, CanHdr(0, 0, 255) \o << 7, 8 >> >>,                      \* CAN, data length 255
    << 1, 3, << 0, 0, 0, 0, 60, 0, 99, 255, 5 >> >>,                  \* LIN, data length 255
    << 3, 2, B(20, 0) >>,                                             \* IF status, 20 bytes
    << 3, 1, B(10, 0) >>,                                             \* CM status, 10 bytes
    << 3, 255, << 4, 5 >> >>,                                         \* vendor status
    << 2, 9, << 6 >> >>,                                              \* control
    << 255, 9, << 6, 7 >> >>                                          \* vendor defined
  >>

Proto(k) == [mt |-> Catalogue[k][1], pt |-> Catalogue[k][2], ver |-> 1, ts |-> << 1, 2, 3, 4, 5, 6, 7, k >>,
             ifid |-> << 9, 8, 7, k >>, vid |-> 4096 + k, fl |-> IF k % 3 = 0 THEN 179 ELSE 0, pl |-> Catalogue[k][3]]

MsgBytes(k) == LET p == Proto(k) IN MsgHdr(p, SegNone, Len(p.pl)) \o p.pl

(* frames: all messages of a frame share the message type of the first *)
Choices == UNION {[1..n -> 1..Len(Catalogue)] : n \in 0..MaxMsgs}
SameType(ch) == \A x \in 1..Len(ch) : Catalogue[ch[x]][1] = Catalogue[ch[1]][1]
Whole(ch) == FrameHdr(3, 258, IF Len(ch) = 0 THEN 1 ELSE Catalogue[ch[1]][1], 7, 65535) \o
             FlattenSeq([x \in 1..Len(ch) |-> MsgBytes(ch[x])])

(* a pending reassembly of the same endpoint left by an earlier frame *)
PreFrame == FrameHdr(3, 258, 1, 7, 65534) \o MsgHdr(Proto(15), SegFirst, 2) \o << 1, 2 >>

Init == pc = "pick" /\ frame = << >> /\ pre = FALSE /\ out = << >> /\ hist = << >>

Pick(ch, cut, pad, withPre) ==
    LET w  == Whole(ch)
        b  == IF cut < Len(w) THEN SubSeq(w, 1, cut) ELSE w \o Zeros(pad)
        p0 == IF withPre THEN D!Decode(D!EmptyPending, PreFrame).pend ELSE D!EmptyPending
    IN /\ frame' = b /\ pre' = withPre /\ pc' = "done"
       /\ out' = D!Decode(p0, b)
       /\ hist' = << [op |-> "new"] >> \o (IF withPre THEN << [op |-> "decode", in |-> PreFrame] >> ELSE << >>)
                    \o << [op |-> "decode", in |-> b] >>

(* C02: one byte of the frame replaced (header fields, flags, types, every length field), or cut below the header *)
CorruptAt(w, o, v) == [w EXCEPT ![o + 1] = v]
PickCorrupt(ch, o, v, withPre) ==
    LET w  == Whole(ch)
        b  == CorruptAt(w, o, v)
        p0 == IF withPre THEN D!Decode(D!EmptyPending, PreFrame).pend ELSE D!EmptyPending
    IN /\ frame' = b /\ pre' = withPre /\ pc' = "done"
       /\ out' = D!Decode(p0, b)
       /\ hist' = << [op |-> "new"] >> \o (IF withPre THEN << [op |-> "decode", in |-> PreFrame] >> ELSE << >>)
                    \o << [op |-> "decode", in |-> b, place |-> o % 2] >>

Next ==
    /\ pc = "pick"
    /\ \E ch \in Choices :
         /\ SameType(ch)
         /\ \E withPre \in BOOLEAN :
              \/ ~Corrupt /\ \E cut \in 8..Len(Whole(ch)) : Pick(ch, cut, 0, withPre)
              \/ ~Corrupt /\ \E pad \in Pads : Pick(ch, Len(Whole(ch)), pad, withPre)
              \/ Corrupt /\ \E cut \in 0..7 : Pick(ch, cut, 0, withPre)
              \/ Corrupt /\ \E o \in 0..(Len(Whole(ch)) - 1) :
                     (o < 24 \/ Whole(ch)[o + 1] < 70 \/ o % 16 \in {4, 5, 6, 7}) /\
                     \E v \in {0, 1, 255, (Whole(ch)[o + 1] + 1) % 256, (Whole(ch)[o + 1] + 255) % 256,
                                (Whole(ch)[o + 1] + 64) % 256, (Whole(ch)[o + 1] + 4) % 256} :
                         v # Whole(ch)[o + 1] /\ PickCorrupt(ch, o, v, withPre)

Spec == Init /\ [][Next]_vars

InvC04 == (pc = "done" /\ InC04Domain(frame)) => DecodedMatchesWire(frame, out.out)
(* an unsegmented message supersedes a pending reassembly; a header-only frame leaves it alone *)
InvSupersede == (pc = "done" /\ ~Corrupt) => (DOMAIN out.pend # {} <=> (pre /\ Len(frame) = 8))
InvC02 == pc = "done" => OutputBound(frame, out.out)

DumpEdges == (DumpCases /\ pc' = "done") => PrintT(<< "CASE", ToJson(hist') >>)

=============================================================================
