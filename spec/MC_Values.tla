----------------------------- MODULE MC_Values -----------------------------
(* Packets (and payloads) as values (C14): an object store of NSlots slots;   *)
(* every sequence of make, copy-construct, move-construct, copy-assign (also  *)
(* onto itself and onto equal-looking targets), move-assign, mutate and       *)
(* equality tests over a small alphabet of values: the empty packet, packets  *)
(* with zero-length payloads of different types, a packet whose payload is of  *)
(* type invalid, a data packet, the same with                                  *)
(* one payload byte or one header field changed, status packets.  A moved-    *)
(* from slot is unspecified ("U") and only used as an assignment target; "N"  *)
(* is a slot that holds no object yet.  The store semantics is the whole      *)
(* specification: dst takes the source's (former) value, nothing else moves.  *)
EXTENDS Bits, TLC, Json

CONSTANTS NSlots, DumpCases

VARIABLES store, hist
vars == << store, hist >>
View == store

Slots == 1..NSlots
Vals == {"E", "Z1", "Z2", "P", "Pb", "Ph", "Pi", "Pm", "Pt", "S", "Sb", "S2", "I"}

Base == [dev |-> 7, st |-> 3, ver |-> 2, seq |-> 11, ts |-> << 1, 2, 3, 4, 5, 6, 7, 8 >>, ifid |-> << 0, 0, 1, 2 >>, vid |-> 77,
         fl |-> 33, seg |-> 0]
Desc(v) ==
    CASE v = "E"  -> Base @@ [empty |-> TRUE]
      [] v = "Z1" -> Base @@ [mt |-> 1, pt |-> 1, pl |-> << >>]
      [] v = "Z2" -> Base @@ [mt |-> 1, pt |-> 3, pl |-> << >>]
      [] v = "P"  -> Base @@ [mt |-> 1, pt |-> 255, pl |-> << 10, 20, 30 >>]
      [] v = "Pb" -> Base @@ [mt |-> 1, pt |-> 255, pl |-> << 10, 21, 30 >>]
      [] v = "Pm" -> Base @@ [mt |-> 2, pt |-> 255, pl |-> << 10, 20, 30 >>]          \* same payload type byte and bytes, another message type
      [] v = "Pt" -> Base @@ [mt |-> 1, pt |-> 9, pl |-> << 10, 20, 30 >>]            \* P after its payload type byte was written through a reference
      [] v = "Ph" -> [Base EXCEPT !.ts = << 1, 2, 3, 4, 5, 6, 7, 9 >>] @@ [mt |-> 1, pt |-> 255, pl |-> << 10, 20, 30 >>]
      [] v = "Pi" -> [Base EXCEPT !.ifid = << 0, 0, 1, 3 >>] @@ [mt |-> 1, pt |-> 255, pl |-> << 10, 20, 30 >>]     \* the interface id alone differs
      [] v = "I"  -> Base @@ [mt |-> 0, pt |-> 0, pl |-> << 0, 0, 0 >>]          \* payload of type invalid, as the decoder returns for a rejected message
      [] v = "S"  -> Base @@ [mt |-> 3, pt |-> 255, pl |-> << 4 >>]                  \* payloads of one byte
      [] v = "Sb" -> Base @@ [mt |-> 3, pt |-> 255, pl |-> << 5 >>]
      [] v = "S2" -> [Base EXCEPT !.ts = << 1, 2, 3, 4, 5, 6, 7, 9 >>] @@ [mt |-> 3, pt |-> 255, pl |-> << 4 >>]

(* mutate = set the timestamp to the other of two values *)
Mut(v) == CASE v = "P" -> "Ph" [] v = "Ph" -> "P" [] v = "S" -> "S2" [] v = "S2" -> "S"
MutTs(v) == Desc(Mut(v)).ts

Init == store = [k \in Slots |-> "N"] /\ hist = << >>

Do(s2, op) == store' = s2 /\ hist' = Append(hist, op)
Val(k) == store[k] \in Vals
Obj(k) == store[k] # "N"

Next ==
    \/ \E k \in Slots, v \in Vals : store[k] = "N" /\ Do([store EXCEPT ![k] = v], [op |-> "make", slot |-> k, pkt |-> Desc(v)])
    \/ \E d, s \in Slots : d # s /\ Val(s) /\ store[d] = "N" /\ Do([store EXCEPT ![d] = store[s]], [op |-> "copy", dst |-> d, src |-> s])
    \/ \E d, s \in Slots : d # s /\ Val(s) /\ store[d] = "N" /\
           Do([store EXCEPT ![d] = store[s], ![s] = "U"], [op |-> "move", dst |-> d, src |-> s])
    \/ \E d, s \in Slots : Val(s) /\ Obj(d) /\ Do([store EXCEPT ![d] = store[s]], [op |-> "assign", dst |-> d, src |-> s])
    \/ \E d, s \in Slots : d # s /\ Val(s) /\ Obj(d) /\
           Do([store EXCEPT ![d] = store[s], ![s] = "U"], [op |-> "massign", dst |-> d, src |-> s])
    \/ \E k \in Slots : store[k] \in {"P", "Ph", "S", "S2"} /\
           Do([store EXCEPT ![k] = Mut(store[k])], [op |-> "mutate", slot |-> k, ts |-> MutTs(store[k])])
    (* a copy taken while the caller holds a reference to the source's payload, which is written through afterwards: *)
    (* the copy keeps the value the source had (a copy shares no state with its original)                            *)
    \/ \E d, s \in Slots : d # s /\ store[s] = "P" /\ (store[d] = "N" \/ Obj(d)) /\
           Do([store EXCEPT ![d] = "P", ![s] = "Pt"], [op |-> "copyref", dst |-> d, src |-> s, assign |-> Obj(d), ptvia |-> 9])
    \/ \E a, b \in Slots : Val(a) /\ Val(b) /\ Do(store, [op |-> "eq", a |-> a, b |-> b])

Spec == Init /\ [][Next]_vars

TypeOK == store \in [Slots -> Vals \cup {"U", "N"}]

DumpEdges == DumpCases => PrintT(<< "CASE", ToJson(hist') >>)
=============================================================================
