------------------------------ MODULE MC_Enc ------------------------------
(* Bounded instance of the encoder state machine.  Used in two shapes:       *)
(*  - MC_EncBatch.cfg: one encode call over every batch x context of a       *)
(*    bounded input space (C01, C07, C08), encoder composed with the decoder *)
(*  - MC_EncHist.cfg: every sequence of configuration changes and encode     *)
(*    calls up to a bound (C09, C10)                                         *)
(* Every property is an invariant evaluated when a call has just completed.  *)
(* The history variable hist is hidden from the fingerprint by the VIEW; an  *)
(* ACTION_CONSTRAINT prints one concrete path per transition that completes   *)
(* a public operation: these are the cases replayed on the real encoder.     *)
EXTENDS EncProps, TLC, Json

CONSTANTS MaxPk,        \* packets per batch 0..MaxPk
          LenSet,       \* payload lengths
          MtSet,        \* message types
          MaxSet,       \* ctx.max values
          MinSet,       \* ctx.min values
          MaxOps,       \* operations per history
          DevSet, StreamSet, Seq0Set,
          AllowCfgOps,  \* TRUE: setDev/setStream/restart are part of the alphabet
          DumpCases     \* TRUE: print replay cases

VARIABLES dev, stream, seq, pc, call, res, mon, nops, hist

vars == << dev, stream, seq, pc, call, res, mon, nops, hist >>
View == << dev, stream, seq, pc, call, res, mon, nops >>

NoTecmp(b) == << >>
D == INSTANCE Decoder WITH TecmpDecode <- NoTecmp

(* packet x of a batch: everything but type and length is a function of x *)
Pk(x, mt, n) ==
    [mt |-> mt, pt |-> IF mt = MtData THEN 255 ELSE 200 + x, ver |-> 1, dev |-> 4096 + x, st |-> 90 + x, seq |-> 700 + x,   \* ids of the packet's own: the encoder's win
     ts |-> << 1, 2, 3, 4, 5, 6, 7, x >>, ifid |-> << 10, 11, 12, x >>, vid |-> 4660 + x,
     fl |-> IF x = 2 THEN 33 ELSE IF x = 3 THEN 13 ELSE 0,       \* packet 3 carries bits of the segmentation field
     pl |-> [j \in 1..n |-> (16 * x + j) % 256]]

Shapes == MtSet \X LenSet
BatchShapes == UNION {[1..k -> Shapes] : k \in 0..MaxPk}
MkBatch(sh) == [x \in 1..Len(sh) |-> Pk(x, sh[x][1], sh[x][2])]
Ctxs == {[min |-> mn, max |-> mx] : mn \in MinSet, mx \in MaxSet}
ValidCtx(c) == c.min <= c.max /\ c.max >= 25

NoRes == [has |-> FALSE]

Init ==
    /\ dev \in DevSet /\ stream \in StreamSet /\ seq \in Seq0Set
    /\ pc = "idle" /\ call = << >> /\ res = NoRes /\ mon = seq /\ nops = 0
    /\ hist = << [op |-> "init", dev |-> dev, stream |-> stream, seq |-> seq] >>

SetDeviceId(d) ==
    /\ AllowCfgOps /\ pc = "idle" /\ nops < MaxOps
    /\ dev' = d /\ seq' = 0 /\ mon' = 0 /\ res' = NoRes /\ nops' = nops + 1
    /\ hist' = Append(hist, [op |-> "setDev", v |-> d])
    /\ UNCHANGED << stream, pc, call >>

SetStreamId(s) ==
    /\ AllowCfgOps /\ pc = "idle" /\ nops < MaxOps
    /\ stream' = s /\ seq' = 0 /\ mon' = 0 /\ res' = NoRes /\ nops' = nops + 1
    /\ hist' = Append(hist, [op |-> "setStream", v |-> s])
    /\ UNCHANGED << dev, pc, call >>

Restart ==
    /\ AllowCfgOps /\ pc = "idle" /\ nops < MaxOps
    /\ seq' = 0 /\ mon' = 0 /\ res' = NoRes /\ nops' = nops + 1
    /\ hist' = Append(hist, [op |-> "restart"])
    /\ UNCHANGED << dev, stream, pc, call >>

EncodeBegin(sh, c) ==
    /\ pc = "idle" /\ nops < MaxOps /\ ValidCtx(c)
    /\ pc' = "run" /\ call' = EncInit(MkBatch(sh), c, seq) /\ res' = NoRes
    /\ hist' = Append(hist, [op |-> "encode", batch |-> MkBatch(sh), ctx |-> c,
                             ov |-> (Len(hist) + Len(sh) + c.max) % 3])       \* which of the three public overloads the replay uses
    /\ UNCHANGED << dev, stream, seq, mon, nops >>

EncodeStep ==
    /\ pc = "run" /\ ~EncDone(call)
    /\ call' = EncStep(dev, stream, call)
    /\ UNCHANGED << dev, stream, seq, pc, res, mon, nops, hist >>

EncodeEnd ==
    /\ pc = "run" /\ EncDone(call)
    /\ res' = [has |-> TRUE, batch |-> call.batch, ctx |-> call.ctx, frames |-> EncFinish(call), last |-> mon]
    /\ seq' = call.seq /\ mon' = call.seq
    /\ pc' = "idle" /\ call' = << >> /\ nops' = nops + 1
    /\ UNCHANGED << dev, stream, hist >>

Next ==
    \/ (pc = "idle" /\ nops < MaxOps /\ AllowCfgOps) /\
         \/ \E d \in DevSet : SetDeviceId(d)
         \/ \E s \in StreamSet : SetStreamId(s)
         \/ Restart
    \/ (pc = "idle" /\ nops < MaxOps) /\ \E sh \in BatchShapes, c \in Ctxs : EncodeBegin(sh, c)
    \/ EncodeStep
    \/ EncodeEnd

Spec == Init /\ [][Next]_vars

(* ---- the properties, on the specification's own output ------------------ *)
RECURSIVE DecodeAll(_, _, _, _)
DecodeAll(frames, k, pend, out) ==
    IF k > Len(frames) THEN [out |-> out, pend |-> pend]
    ELSE LET r == D!Decode(pend, frames[k]) IN DecodeAll(frames, k + 1, r.pend, out \o r.out)

InvC07 == res.has => FramesWellFormed(res.batch, res.ctx, res.frames)
InvC08 == res.has => SegRules(res.batch, res.ctx, res.frames)
InvC09 == res.has => CounterRule(res.last, dev, stream, res.batch, res.frames, seq, dev, stream)
InvC10 == res.has => SameUpToShift(res.frames, EncodeStepwise(dev, stream, 0, res.batch, res.ctx).frames)
(* the closed form used by the judge equals the stepwise machine *)
InvClosedForm == res.has => LET c == Encode(dev, stream, res.last, res.batch, res.ctx) IN
                            c.frames = res.frames /\ c.seq = seq
InvC01 == (res.has /\ InC01Domain(res.batch, res.ctx)) =>
              LET r == DecodeAll(res.frames, 1, D!EmptyPending, << >>) IN
              /\ RoundTripOK(res.batch, dev, stream, r.out)
              /\ r.pend = D!EmptyPending          \* nothing left pending after a whole batch
TypeOK == seq \in 0..65535 /\ pc \in {"idle", "run"}

(* ---- replay cases -------------------------------------------------------- *)
OpDone == pc' = "idle" /\ (nops' = nops + 1)
DumpEdges == (DumpCases /\ OpDone) => PrintT(<< "CASE", ToJson(hist') >>)
(* EncPaths configurations run without the VIEW: the history is part of the state, so TLC enumerates every *history*   *)
(* of MaxOps operations (not one path per transition) - an implementation may keep state the specification does not   *)
(* have (a counter remembered per stream id, say), and only whole histories reach it; complete paths are printed      *)
DumpPaths == (DumpCases /\ OpDone /\ nops' = MaxOps) => PrintT(<< "CASE", ToJson(hist') >>)

(* non-vacuity counters: number of completed calls that needed segmentation,  *)
(* aggregation, a message type change                                         *)
=============================================================================
