----------------------------- MODULE Concurrent -----------------------------
(* C19 at design level: N independent instances (an encoder, a decoder and a  *)
(* status tracker each), any interleaving of their operations.  The           *)
(* composition is the interleaving of the single-instance specifications      *)
(* over disjoint state; the invariant states non-interference in the form the *)
(* binding uses: after any interleaving, the state and the results of every   *)
(* instance are exactly those of replaying its own operations alone.  This is *)
(* why a per-thread trace must equal the trace of the same workload run alone *)
(* whatever the schedule; a shared mutable variable in the implementation     *)
(* (which the specification does not have) is what breaks it.                 *)
EXTENDS Encoder, Status, TLC

CONSTANTS N, MaxSteps

VARIABLES inst, done, steps
vars == << inst, done, steps >>

D == INSTANCE Decoder WITH TecmpDecode <- LAMBDA b : << >>

I == 1..N
P(i, n) == [mt |-> 1, pt |-> 255, ver |-> 1, ts |-> << 0, 0, 0, 0, 0, 0, 0, i >>, ifid |-> << 0, 0, 0, i >>, vid |-> 0, fl |-> 0,
            pl |-> [j \in 1..n |-> (16 * i + j) % 256]]
Cm(i) == [dev |-> i, st |-> 0, ver |-> 1, mt |-> 3, pt |-> 1, ts |-> << 0, 0, 0, 0, 0, 0, 0, i >>, ifid |-> << 0, 0, 0, 0 >>, vid |-> 0,
          fl |-> 0, pl |-> [j \in 1..36 |-> 0]]

Ops == {"encodeSmall", "encodeSegmented", "feedOwnFrames", "statusUpdate", "restart"}

S0(i) == [dev |-> i, stream |-> i, seq |-> 0, pending |-> D!EmptyPending, map |-> EmptyMap, frames |-> << >>, delivered |-> 0]

(* the single-instance specification: effect of one operation on one instance *)
Apply(s, i, op) ==
    CASE op = "encodeSmall" ->
            LET r == Encode(s.dev, s.stream, s.seq, << P(i, 2) >>, [min |-> 0, max |-> 64]) IN
            [s EXCEPT !.seq = r.seq, !.frames = r.frames]
      [] op = "encodeSegmented" ->
            LET r == Encode(s.dev, s.stream, s.seq, << P(i, 5) >>, [min |-> 0, max |-> 27]) IN
            [s EXCEPT !.seq = r.seq, !.frames = r.frames]
      [] op = "feedOwnFrames" ->
            IF s.frames = << >> THEN s
            ELSE LET r == D!Decode(s.pending, s.frames[1]) IN
                 [s EXCEPT !.pending = r.pend, !.frames = Tail(@), !.delivered = @ + Len(r.out)]
      [] op = "statusUpdate" -> [s EXCEPT !.map = MapUpdate(@, Cm(i))]
      [] op = "restart" -> [s EXCEPT !.seq = 0]

RECURSIVE Replay(_, _, _)
Replay(s, i, ops) == IF ops = << >> THEN s ELSE Replay(Apply(s, i, ops[1]), i, Tail(ops))

Init == inst = [i \in I |-> S0(i)] /\ done = [i \in I |-> << >>] /\ steps = 0

Step(i, op) ==
    /\ steps < MaxSteps
    /\ inst' = [inst EXCEPT ![i] = Apply(@, i, op)]          \* only instance i is read or written
    /\ done' = [done EXCEPT ![i] = Append(@, op)]
    /\ steps' = steps + 1

Next == \E i \in I, op \in Ops : Step(i, op)
Spec == Init /\ [][Next]_vars

(* every instance is where its own operations alone would have brought it *)
NonInterference == \A i \in I : inst[i] = Replay(S0(i), i, done[i])
=============================================================================
