----------------------------- MODULE MC_DecAny -----------------------------
(* Any history of frames over several endpoints (C17, C18, C02 output bound). *)
(* Each step feeds one buffer chosen from an alphabet that is relative to the *)
(* endpoint's last counter: well-formed messages and segments, orphan and     *)
(* out-of-order segments, changed version / type, trailing bytes, several     *)
(* messages per frame, invalid messages, truncated and header-only frames,    *)
(* undersized buffers and TECMP frames.  One shadow decoder per endpoint is   *)
(* fed only that endpoint's frames.                                           *)
(*   C17  the decoder holds state for exactly the endpoints whose clean run   *)
(*        (ghost, from the frames alone) is open, and never more bytes than   *)
(*        the run's segments carried                                          *)
(*   C18  state and deliveries of an endpoint equal those of its shadow       *)
EXTENDS DecProps, TLC, Json

CONSTANTS MaxFrames, NEndpoints, Ctr0, Kinds, CtrRels, VerRels, MtRels, DumpCases

VARIABLES pending, shadow, ctr, steps, runs, res, hist
vars == << pending, shadow, ctr, steps, runs, res, hist >>
View == << pending, shadow, ctr, steps, runs, res >>

D == INSTANCE Decoder WITH TecmpDecode <- LAMBDA b : << >>

AllEndpoints == << << 3, 2 >>, << 3, 3 >>, << 259, 2 >> >>     \* same device / other stream; 3: coincides with 2 under dev | st << 8, with 1 under dev % 256
E == 1..NEndpoints
Ep(i) == AllEndpoints[i]

Proto(i) == [mt |-> MtData, pt |-> 255, ver |-> i, ts |-> << 0, 0, 0, 0, 0, 0, 0, i >>, ifid |-> << 0, 0, 0, i >>,
             vid |-> i, fl |-> 0, pl |-> << >>]

Pl(i, tag, n) == [j \in 1..n |-> (64 * i + 8 * tag + j) % 256]

Msg(p, seg, pl) == MsgHdr(p, seg, Len(pl)) \o pl

(* message bytes after the CMP header for each kind of frame *)
Body(i, kind, p) ==
    CASE kind = "U"      -> Msg(p, SegNone, Pl(i, 1, 1))
      [] kind = "F"      -> Msg(p, SegFirst, Pl(i, 2, 2))
      [] kind = "I"      -> Msg(p, SegMid, Pl(i, 3, 1))
      [] kind = "L"      -> Msg(p, SegLast, Pl(i, 4, 1))
      [] kind = "F0"     -> Msg(p, SegFirst, << >>)                                  \* zero-length segment
      [] kind = "Ftrail" -> Msg(p, SegFirst, Pl(i, 2, 2)) \o << 171, 205, 239 >>    \* bytes after the declared length
      [] kind = "Lpad"   -> Msg(p, SegLast, Pl(i, 4, 1)) \o << 0, 0, 0, 0 >>
      [] kind = "UU"     -> Msg(p, SegNone, Pl(i, 1, 1)) \o Msg(p, SegNone, Pl(i, 5, 2))
      [] kind = "UF"     -> Msg(p, SegNone, Pl(i, 1, 1)) \o Msg(p, SegFirst, Pl(i, 2, 2))
      [] kind = "UL"     -> Msg(p, SegNone, Pl(i, 1, 1)) \o Msg(p, SegLast, Pl(i, 4, 1))
      [] kind = "FU"     -> Msg(p, SegFirst, Pl(i, 2, 2)) \o Msg(p, SegNone, Pl(i, 1, 1))  \* nothing after a segment is parsed
      [] kind = "bad0"   -> Msg([p EXCEPT !.pt = 0], SegNone, Pl(i, 6, 1))          \* payload type 0
      [] kind = "err"    -> Msg([p EXCEPT !.fl = 64], SegNone, Pl(i, 6, 1))         \* error-in-payload flag
      [] kind = "errL"   -> Msg([p EXCEPT !.fl = 64], SegLast, Pl(i, 4, 1))
      [] kind = "long"   -> SubSeq(Msg(p, SegNone, Pl(i, 1, 3)), 1, 18)              \* declared length exceeds the frame
      [] kind = "cut12"  -> SubSeq(Msg(p, SegNone, Pl(i, 1, 1)), 1, 12)              \* incomplete message header
      [] kind = "hdr8"   -> << >>                                                     \* header-only frame

FrameFor(i, kind, c, ver, mt) ==
    LET p == [Proto(i) EXCEPT !.mt = mt] IN
    FrameHdr(ver, Ep(i)[1], mt, Ep(i)[2], c) \o Body(i, kind, p)

CtrOf(c, rel) == IF rel = "next" THEN (c + 1) % 65536 ELSE IF rel = "same" THEN c
                 ELSE IF rel = "plus2" THEN (c + 2) % 65536
                 ELSE IF rel = "one" THEN 1 ELSE IF rel = "zero" THEN 0                   \* absolute: what follows a value-initialised entry
                 ELSE (c + 257) % 65536                                                   \* 256 frames lost: equal modulo 256 only
VerOf(i, rel) == IF rel = "same" THEN i ELSE i + 8
MtOf(rel) == IF rel = "same" THEN MtData ELSE MtStatus

KindIdx(k) == CHOOSE n \in 1..17 : << "U", "F", "I", "L", "F0", "Ftrail", "Lpad", "UU", "UF", "UL", "FU", "bad0", "err",
                                     "errL", "long", "cut12", "hdr8" >>[n] = k
RelIdx(r) == IF r = "next" THEN 0 ELSE IF r = "same" THEN 1 ELSE IF r = "plus2" THEN 2 ELSE IF r = "one" THEN 4 ELSE IF r = "zero" THEN 5 ELSE 3

Init ==
    /\ pending = D!EmptyPending
    /\ shadow = [i \in E |-> D!EmptyPending]
    /\ ctr = [i \in E |-> Ctr0]
    /\ steps = 0
    /\ runs = [x \in {} |-> NoRun]
    /\ res = [has |-> FALSE]
    /\ hist = [key |-> << >>, last |-> [op |-> "new"]]

Feed(i, b, label) ==
    LET r == D!Decode(pending, b)
        s == D!Decode(shadow[i], b)
        g == GhostStep(runs, b)
    IN /\ pending' = r.pend
       /\ shadow' = [shadow EXCEPT ![i] = s.pend]
       /\ runs' = g.runs
       /\ res' = [has |-> TRUE, in |-> b, out |-> r.out, solo |-> s.out, cmp |-> TRUE]
       /\ steps' = steps + 1
       /\ hist' = [key |-> Append(hist.key, label), last |-> [op |-> "decode", in |-> b]]

(* a frame of endpoint i *)
FeedCmp(i, kind, crel, vrel, mrel) ==
    LET c == CtrOf(ctr[i], crel) IN
    /\ ctr' = [ctr EXCEPT ![i] = c]
    /\ Feed(i, FrameFor(i, kind, c, VerOf(i, vrel), MtOf(mrel)),
            100000 * i + 1000 * KindIdx(kind) + 100 * RelIdx(crel) + 10 * (IF vrel = "same" THEN 0 ELSE 1) + (IF mrel = "same" THEN 0 ELSE 1))

(* a continuation segment whose frame header looks like a value-initialised one (version 1, message type 0 = undefined, *)
(* counter 0 or 1): it continues nothing, whatever an implementation keeps in an entry it has just created (round9a-5)  *)
FeedDefaultLike(i, kind, crel) ==
    LET c == CtrOf(ctr[i], crel) IN
    /\ ctr' = [ctr EXCEPT ![i] = c]
    /\ Feed(i, FrameFor(i, kind, c, 1, 0), 100000 * i + 1000 * KindIdx(kind) + 100 * RelIdx(crel) + 22)

(* buffers that are no capture-module frame: the decoder and every shadow must stay as they are *)
(* a leading 0x00 routes a buffer away from the capture-module path whatever its length: here 20 bytes that   *)
(* otherwise look like a frame of endpoint i (device id, stream id, plausible counter)                         *)
AlienLike(i) == << 0, 0 >> \o BE16(Ep(i)[1]) \o << 1, Ep(i)[2] >> \o BE16((ctr[i] + 1) % 65536) \o Msg(Proto(i), SegNone, Pl(i, 1, 1))
Alien(n) == IF n >= 10 THEN SubSeq(AlienLike(n - 9), 1, 20) ELSE
            IF n = 1 THEN << 1, 0, 0, 1, 1, 1, 0 >>                                           \* 7 bytes
            ELSE IF n = 2 THEN << 0, 1, 0, 1, 3, 3, 0, 2 >> \o [j \in 1..24 |-> 0]            \* TECMP-routed, no payload
            ELSE << >>                                                                         \* empty buffer
FeedAlien(n) ==
    LET r == D!Decode(pending, Alien(n)) IN
    /\ pending' = r.pend
    /\ res' = [has |-> TRUE, in |-> Alien(n), out |-> r.out, solo |-> << >>, cmp |-> FALSE]
    /\ steps' = steps + 1
    /\ hist' = [key |-> Append(hist.key, n), last |-> [op |-> "decode", in |-> Alien(n), pendBefore |-> TRUE]]
    /\ UNCHANGED << shadow, ctr, runs >>

Next ==
    /\ steps < MaxFrames
    /\ \/ \E i \in E, kind \in Kinds, crel \in CtrRels : FeedCmp(i, kind, crel, "same", "same")
       \/ \E i \in E, kind \in Kinds \cap {"F", "I", "L"}, vrel \in VerRels, mrel \in MtRels :
              (vrel # "same" \/ mrel # "same") /\ FeedCmp(i, kind, "next", vrel, mrel)
       \/ \E i \in E, kind \in Kinds \cap {"I", "L", "F0"}, crel \in {"one", "zero"} : FeedDefaultLike(i, kind, crel)
       \/ \E n \in (1..3) \cup {9 + i : i \in E} : FeedAlien(n)

Spec == Init /\ [][Next]_vars

(* ---- properties ------------------------------------------------------------ *)
InvC17 ==
    /\ DOMAIN pending = DOMAIN runs                                             \* state exactly for the open runs
    /\ \A e \in DOMAIN pending : D!PendBytes(pending[e]) <= runs[e].bytes       \* never more than was received
    /\ \A e \in DOMAIN pending : pending[e].buf = runs[e].pl                    \* and it is the declared bytes

InvC18 ==
    /\ \A i \in E : D!PendOf(pending, Ep(i)) = D!PendOf(shadow[i], Ep(i))
    /\ \A i \in E : DOMAIN shadow[i] \subseteq {Ep(i)}
    /\ (res.has /\ res.cmp) => res.out = res.solo
    /\ (res.has /\ ~res.cmp) => res.out = << >>

InvC02 == res.has => OutputBound(res.in, res.out)

DumpEdges == DumpCases => PrintT(<< "EDGE", hist'.key, ToJson(hist'.last) >>)

=============================================================================
