------------------------------- MODULE Bits -------------------------------
(* Bytes, bits and big-endian helpers.  A byte is an integer 0..255, a      *)
(* buffer is a sequence of bytes.  Offsets are 0-based as in the protocol    *)
(* documents (At(b, k) is the byte at offset k).  Values wider than 31 bits  *)
(* are never integers: they stay big-endian byte tuples or bit sequences     *)
(* (TLC integers are 32 bit).                                                *)
EXTENDS Naturals, Sequences, FiniteSets

Byte == 0..255

At(b, k) == b[k + 1]

U16(b, k) == b[k + 1] * 256 + b[k + 2]          \* big-endian 16 bit at offset k

BE16(v) == << (v \div 256) % 256, v % 256 >>

Slice(b, k, n) == SubSeq(b, k + 1, k + n)       \* n bytes starting at offset k

Zeros(n) == [i \in 1..n |-> 0]

Fill(n, v) == [i \in 1..n |-> v]

Min(a, b) == IF a <= b THEN a ELSE b
Max(a, b) == IF a >= b THEN a ELSE b

AllZeroFrom(b, k) == \A i \in (k + 1)..Len(b) : b[i] = 0

IsBytes(b) == \A i \in 1..Len(b) : b[i] \in Byte

(* bit k of a byte, k = 7 is the most significant *)
BitOf(v, k) == (v \div (2 ^ k)) % 2

(* MSB-first bit sequence of a byte tuple *)
BytesToBits(b) == [i \in 1..(8 * Len(b)) |-> BitOf(b[((i - 1) \div 8) + 1], 7 - ((i - 1) % 8))]

ByteOfBits(bits, j) ==      \* j-th byte (1-based) of an MSB-first bit sequence
    bits[8*j - 7] * 128 + bits[8*j - 6] * 64 + bits[8*j - 5] * 32 + bits[8*j - 4] * 16 +
    bits[8*j - 3] * 8 + bits[8*j - 2] * 4 + bits[8*j - 1] * 2 + bits[8*j]

BitsToBytes(bits) == [j \in 1..(Len(bits) \div 8) |-> ByteOfBits(bits, j)]

(* the last w bits of a big-endian byte tuple: the value of a w-bit field   *)
(* that was logged right-aligned in ceil(w/8) bytes                          *)
LowBits(v, w) == LET all == BytesToBits(v) IN SubSeq(all, Len(all) - w + 1, Len(all))

(* integer value of a short bit sequence (<= 30 bits) *)
RECURSIVE BitsVal(_)
BitsVal(bits) == IF bits = << >> THEN 0
                 ELSE 2 * BitsVal(SubSeq(bits, 1, Len(bits) - 1)) + bits[Len(bits)]

(* TLC's cost of a recursion grows quadratically with its depth, so folds over  *)
(* long sequences are balanced (depth O(log n))                                *)
RECURSIVE SumRange(_, _, _)
SumRange(s, lo, hi) ==
    IF lo > hi THEN 0
    ELSE IF lo = hi THEN s[lo]
    ELSE LET mid == (lo + hi) \div 2 IN SumRange(s, lo, mid) + SumRange(s, mid + 1, hi)
SumSeq(s) == SumRange(s, 1, Len(s))

(* concatenation of a sequence of sequences, balanced so that the work is    *)
(* O(total * log n) and the recursion depth O(log n)                          *)
RECURSIVE FlattenRange(_, _, _)
FlattenRange(ss, lo, hi) ==
    IF lo > hi THEN << >>
    ELSE IF lo = hi THEN ss[lo]
    ELSE LET mid == (lo + hi) \div 2 IN FlattenRange(ss, lo, mid) \o FlattenRange(ss, mid + 1, hi)
FlattenSeq(ss) == FlattenRange(ss, 1, Len(ss))

=============================================================================
