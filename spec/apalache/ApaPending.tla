----------------------------- MODULE ApaPending -----------------------------
(* Record-level abstraction of the decoder's reassembly table (integers and   *)
(* finite sets only), for an unbounded argument with Apalache: an inductive   *)
(* invariant shows, for histories of any length and segments of any size,     *)
(* that the table holds bytes only for endpoints whose run is open and never  *)
(* more than the segment bytes received for the open message (C17, byte       *)
(* bound).  The abstraction keeps, per endpoint, what spec/Decoder.tla keeps  *)
(* (open, last counter, buffered bytes = 16 + payload bytes) and the ghost    *)
(* of spec/DecProps.tla (received = sum of 16 + declared length over the      *)
(* run); frames are abstracted to their kind, declared length and whether     *)
(* their counter / version / type continue the run.  MC_DecAny ties the       *)
(* byte-level specification to the same two quantities (InvC17).              *)
EXTENDS Integers

CONSTANTS
    \* @type: Set(Int);
    E

VARIABLES
    \* @type: Int -> Bool;
    open,
    \* @type: Int -> Int;
    held,
    \* @type: Int -> Int;
    received,
    \* @type: Int -> Int;
    cur

CInit == E = {1, 2, 3}

Init ==
    /\ open = [e \in E |-> FALSE]
    /\ held = [e \in E |-> 0]
    /\ received = [e \in E |-> 0]
    /\ cur = [e \in E |-> 0]

Close(e) ==
    /\ open' = [open EXCEPT ![e] = FALSE]
    /\ held' = [held EXCEPT ![e] = 0]
    /\ received' = [received EXCEPT ![e] = 0]
    /\ UNCHANGED cur

\* unsegmented message(s), invalid message, orphan or out-of-order segment: the entry is released
Release(e) == Close(e)

\* first segment with n declared payload bytes and counter c
First(e, n, c) ==
    /\ open' = [open EXCEPT ![e] = TRUE]
    /\ held' = [held EXCEPT ![e] = 16 + n]
    /\ received' = [received EXCEPT ![e] = 16 + n]
    /\ cur' = [cur EXCEPT ![e] = c]

\* intermediary segment that continues the run
Continue(e, n) ==
    /\ open[e]
    /\ open' = open
    /\ held' = [held EXCEPT ![e] = @ + n]
    /\ received' = [received EXCEPT ![e] = @ + 16 + n]
    /\ cur' = [cur EXCEPT ![e] = (@ + 1) % 65536]

\* last segment that continues the run: delivered and released
Complete(e) == open[e] /\ Close(e)

\* header-only frame, frame of another protocol, undersized buffer: nothing changes
Skip == UNCHANGED << open, held, received, cur >>

Next ==
    \/ Skip
    \/ \E e \in E :
         \/ Release(e)
         \/ Complete(e)
         \/ \E n \in 0..65535 : Continue(e, n)
         \/ \E n \in 0..65535, c \in 0..65535 : First(e, n, c)

\* the inductive invariant: types, and the C17 statement
IndInv ==
    /\ open \in [E -> BOOLEAN]
    /\ held \in [E -> Int] /\ received \in [E -> Int] /\ cur \in [E -> Int]
    /\ \A e \in E :
         /\ cur[e] >= 0 /\ cur[e] <= 65535
         /\ (~open[e] => held[e] = 0 /\ received[e] = 0)            \* state only for open runs
         /\ (open[e] => held[e] >= 16 /\ held[e] <= received[e])    \* never more than was received
=============================================================================
