------------------------------ MODULE ApaNoMix ------------------------------
(* The core of C06 as an inductive invariant (Apalache): one endpoint, a      *)
(* well-formed stream of N frames with pairwise different counters (C06 is    *)
(* stated for streams of fewer than 65536 frames), whose frames arrive in ANY *)
(* order, any number of times, with any of them missing - loss, duplication   *)
(* and reordering are all "some frame of the stream arrives next".  The       *)
(* decoder rule of spec/Decoder.tla, reduced to what matters here:            *)
(*     unsegmented          deliver it, release the entry                     *)
(*     first segment        (re)start the entry with it                       *)
(*     other segment        accepted iff an entry is open and the counter is  *)
(*                          the entry's last counter + 1; a last segment      *)
(*                          delivers and releases; anything else releases     *)
(* A frame is identified by its counter; the entry is the range lo..cur of    *)
(* counters it was built from (the bytes are the frames' declared payloads in *)
(* that order: MC_Link / MC_DecAny tie the byte-level specification to this). *)
(* Invariant: an open entry consists of the first segment of one message and  *)
(* its directly following segments, in order, nothing else; whatever is       *)
(* delivered is exactly one whole message of the stream - never a mix of two  *)
(* messages, never one with a hole or a repeated part.  The history is        *)
(* unbounded (inductive step from an arbitrary state satisfying IndInv).      *)
EXTENDS Integers

N == 7        \* frames in the stream (Apalache wants constant ranges; the history is unbounded)

CONSTANTS
    \* @type: Int -> Int;
    msg,        \* message number of the frame with counter c
    \* @type: Int -> Str;
    kind        \* "U" unsegmented, "F" first, "I" intermediary, "L" last segment

VARIABLES
    \* @type: Bool;
    open,
    \* @type: Int;
    lo,
    \* @type: Int;
    cur,
    \* @type: Bool;
    hasD,
    \* @type: Int;
    dlo,
    \* @type: Int;
    dhi

C == 0..(N - 1)

(* the sender's stream is well-formed: messages occupy consecutive counters, F I* L or a single U *)
WellFormed ==
    /\ \A c \in C : kind[c] \in {"U", "F", "I", "L"}
    /\ \A c \in C : msg[c] >= 0
    /\ kind[0] \in {"U", "F"}
    /\ \A c \in C : c + 1 < N =>
          /\ (kind[c] \in {"F", "I"} => msg[c + 1] = msg[c] /\ kind[c + 1] \in {"I", "L"})
          /\ (kind[c] \in {"U", "L"} => msg[c + 1] = msg[c] + 1 /\ kind[c + 1] \in {"U", "F"})

CInit ==
    /\ msg \in [C -> C]
    /\ kind \in [C -> {"U", "F", "I", "L"}]
    /\ WellFormed

Init == open = FALSE /\ lo = 0 /\ cur = 0 /\ hasD = FALSE /\ dlo = 0 /\ dhi = 0

Arrive(c) ==
    IF kind[c] = "U" THEN
        /\ open' = FALSE /\ hasD' = TRUE /\ dlo' = c /\ dhi' = c /\ UNCHANGED << lo, cur >>
    ELSE IF kind[c] = "F" THEN
        /\ open' = TRUE /\ lo' = c /\ cur' = c /\ UNCHANGED << hasD, dlo, dhi >>
    ELSE IF open /\ c = cur + 1 THEN
        IF kind[c] = "L"
        THEN /\ open' = FALSE /\ hasD' = TRUE /\ dlo' = lo /\ dhi' = c /\ UNCHANGED << lo, cur >>
        ELSE /\ cur' = c /\ UNCHANGED << open, lo, hasD, dlo, dhi >>
    ELSE /\ open' = FALSE /\ UNCHANGED << lo, cur, hasD, dlo, dhi >>

Next == \E c \in C : Arrive(c)

(* one whole message of the stream: starts where a message starts, ends where it ends, one message number throughout *)
WholeMessage(a, b) ==
    /\ a \in C /\ b \in C /\ a <= b
    /\ kind[a] \in {"U", "F"} /\ kind[b] \in {"U", "L"}
    /\ \A c \in C : (a <= c /\ c <= b) => msg[c] = msg[a]

IndInv ==
    /\ open \in BOOLEAN /\ hasD \in BOOLEAN
    /\ lo \in C /\ cur \in C /\ dlo \in C /\ dhi \in C
    /\ (open => /\ lo <= cur /\ kind[lo] = "F"
                /\ \A c \in C : (lo <= c /\ c <= cur) => msg[c] = msg[lo] /\ (c > lo => kind[c] = "I"))
    /\ (hasD => WholeMessage(dlo, dhi))

(* what C06 states, as a consequence *)
NoCorruption == hasD => WholeMessage(dlo, dhi)
=============================================================================
