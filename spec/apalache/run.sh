#!/bin/sh
# Inductive invariant with Apalache (unbounded in the length of the history and the segment sizes):
#   1. Init => IndInv            2. IndInv /\ Next => IndInv'
cd "$(dirname "$0")"
out=${1:-/tmp/apalache-out}
mod=${2:-ApaPending}
# the launcher makes a SANY* directory under $TMPDIR for every run: keep that next to the output, removed afterwards
mkdir -p $out.tmp; export TMPDIR=$out.tmp
timeout 900 apalache-mc check --out-dir=$out --cinit=CInit --init=Init --inv=IndInv --length=0 $mod.tla > $out.1.log 2>&1; a=$?
timeout 900 apalache-mc check --out-dir=$out --cinit=CInit --init=IndInv --inv=IndInv --length=1 $mod.tla > $out.2.log 2>&1; b=$?
grep -h -E "The outcome is|Checker reports|EXITCODE" $out.1.log $out.2.log
rm -rf $out $out.tmp
[ $a -eq 0 ] && [ $b -eq 0 ]
