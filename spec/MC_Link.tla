------------------------------ MODULE MC_Link ------------------------------
(* Environment of the decoder for C05 and C06: per-endpoint senders that emit *)
(* well-formed streams (unsegmented messages, and first / intermediary... /   *)
(* last segments one per frame with consecutive 16 bit counters), all         *)
(* interleavings of their frames, and - bounded by MaxFaults - the faults      *)
(* drop, duplicate, reorder (hold / release), corrupt version, corrupt type.  *)
(* The senders choose their messages online; payload bytes identify endpoint, *)
(* message number, segment and position, so "each byte exactly once and in    *)
(* order" and "never a mix of fragments" are meaningful.                      *)
(*                                                                            *)
(* Properties (invariants, evaluated after every step):                       *)
(*   C05  Stepwise   with no fault so far, each call returns exactly what the *)
(*                   sender-side ghost expects (nothing, or the message whose *)
(*                   last segment this frame carries, or the unsegmented      *)
(*                   messages of the frame)                                   *)
(*   C06  NoCorruption  every delivered packet equals a message that was sent *)
(*        Recovery      a last segment that extends a clean run delivers      *)
EXTENDS Frames, TLC, Json

CONSTANTS MaxFrames,     \* steps (frames produced by the senders, plus duplicates / releases)
          MaxFaults,
          MaxSegs,       \* segments per message 2..MaxSegs
          SegSizes,      \* declared payload sizes of a segment
          NEndpoints,    \* 1..3
          Ctr0,          \* starting counter (the first frame carries Ctr0 + 1)
          Trailing,      \* TRUE: segments may be followed by junk bytes or zero padding in their frame
          DumpCases

VARIABLES pending, snd, steps, nfaults, res, sent, run, hist

vars == << pending, snd, steps, nfaults, res, sent, run, hist >>
View == << pending, snd, steps, nfaults, res, sent, run >>

NoTecmp(b) == << >>
D == INSTANCE Decoder WITH TecmpDecode <- NoTecmp

AllEndpoints == << << 3, 2 >>, << 3, 3 >>, << 259, 2 >> >>     \* same device / other stream; 3: coincides with 2 under dev | st << 8, with 1 under dev % 256
E == 1..NEndpoints
Ep(i) == AllEndpoints[i]

(* ---- what the senders send ----------------------------------------------- *)
PayloadBytes(i, msgNo, k, n) == [j \in 1..n |-> (64 * i + 16 * (msgNo % 4) + 4 * k + j) % 256]

(* logical message (without payload) number msgNo of endpoint i *)
MsgProto(i, msgNo) ==
    [mt |-> IF i = 2 THEN MtStatus ELSE MtData, pt |-> 255, ver |-> i,
     ts |-> << 0, 0, 0, 0, 0, 0, i, msgNo >>, ifid |-> << 0, 0, i, msgNo >>, vid |-> 256 * i + msgNo,
     fl |-> IF msgNo % 2 = 1 THEN 1 ELSE 0]

Tail3(kind) == IF kind = "junk" THEN << 171, 205, 239 >> ELSE IF kind = "pad" THEN << 0, 0, 0, 0 >> ELSE << >>

FrameOf(i, ver, mt, ctr, proto, seg, pl, tailKind) ==
    (* continuation segments carry another flag bit (overflow) than the first: the message keeps the first segment's header *)
    FrameHdr(ver, Ep(i)[1], mt, Ep(i)[2], ctr)
        \o MsgHdr([proto EXCEPT !.mt = mt, !.fl = IF seg \in {SegMid, SegLast} THEN 32 + (@ % 32) ELSE @], seg, Len(pl))
        \o pl \o Tail3(tailKind)

Idle == [busy |-> FALSE]
Snd0 == [ctr |-> Ctr0, msgNo |-> 0, acc |-> Idle, last |-> << >>, held |-> << >>]

NoRes == [has |-> FALSE]

Init ==
    /\ pending = D!EmptyPending
    /\ snd = [i \in E |-> Snd0]
    /\ steps = 0 /\ nfaults = 0 /\ res = NoRes
    /\ sent = {} /\ run = [i \in E |-> [on |-> FALSE]]
    /\ hist = [key |-> << >>, last |-> [op |-> "new"]]

Sent(i, proto, pl) == [ep |-> Ep(i), p |-> [proto EXCEPT !.pl = pl]]     \* a complete message as sent
WithPl(proto) == [mt |-> proto.mt, pt |-> proto.pt, ver |-> proto.ver, ts |-> proto.ts, ifid |-> proto.ifid,
                  vid |-> proto.vid, fl |-> proto.fl, pl |-> << >>]

(* clean-run ghost, from the frames as fed: first segment, then segments with *)
(* consecutive counters and unchanged version / type, nothing else of the     *)
(* endpoint in between                                                        *)
RunAfter(r, seg, ver, mt, ctr, pl, proto) ==
    IF seg = SegFirst THEN [on |-> TRUE, ver |-> ver, mt |-> mt, ctr |-> ctr, pl |-> pl, proto |-> proto]
    ELSE IF seg \in {SegMid, SegLast} /\ r.on /\ r.ver = ver /\ r.mt = mt /\ ctr = (r.ctr + 1) % 65536
         THEN IF seg = SegLast THEN [on |-> FALSE, done |-> TRUE, pl |-> r.pl \o pl, proto |-> r.proto, ver |-> r.ver, mt |-> r.mt]
              ELSE [r EXCEPT !.ctr = ctr, !.pl = @ \o pl]
    ELSE [on |-> FALSE]

(* feed one frame to the decoder; expectation record for the invariants *)
FeedFrame(i, frame, seg, ver, mt, ctr, pl, proto, deliver, faulty) ==
    LET r  == D!Decode(pending, frame)
        rn == RunAfter(run[i], seg, ver, mt, ctr, pl, proto)
    IN /\ pending' = r.pend
       /\ run' = [run EXCEPT ![i] = IF "done" \in DOMAIN rn THEN [on |-> FALSE] ELSE rn]
       /\ res' = [has |-> TRUE, ep |-> i, out |-> r.out, deliver |-> deliver,
                  clean |-> nfaults' = 0,
                  runDone |-> "done" \in DOMAIN rn,
                  runMsg |-> IF "done" \in DOMAIN rn
                             THEN [[rn.proto EXCEPT !.ver = rn.ver, !.mt = rn.mt] EXCEPT !.pl = rn.pl] ELSE << >>]

(* ---- sender steps ---------------------------------------------------------- *)
(* a number identifying the step among the steps enabled in a state: the edge  *)
(* dump prints the path as a sequence of these plus the last operation         *)
TailIdx(tk) == IF tk = "none" THEN 0 ELSE IF tk = "junk" THEN 1 ELSE 2
FaultIdx(f) == CASE f = "none" -> 0 [] f = "drop" -> 1 [] f = "hold" -> 2 [] f = "ver" -> 3 [] f = "mt" -> 4
Label(i, seg, sz, tk, fault) == 100000 * i + 10000 * (seg + 1) + 1000 * sz + 100 * TailIdx(tk) + 10 * FaultIdx(fault)

(* fault applied to the frame produced in this step *)
FaultKinds == {"none", "drop", "hold", "ver", "mt"}

Produce(i, seg, sz, tailKind, fault) ==
    LET s     == snd[i]
        start == seg \in {SegNone, SegFirst}
        msgNo == IF start THEN s.msgNo + 1 ELSE s.msgNo
        k     == IF start THEN 0 ELSE s.acc.nseg
        proto == WithPl(MsgProto(i, msgNo))
        pl    == PayloadBytes(i, msgNo, k, sz)
        ctr   == (s.ctr + 1) % 65536
        ver   == IF fault = "ver" THEN proto.ver + 8 ELSE proto.ver
        mt    == IF fault = "mt" THEN (IF proto.mt = MtData THEN MtVendor ELSE MtData) ELSE proto.mt
        frame == FrameOf(i, ver, mt, ctr, proto, seg, pl, tailKind)
        whole == IF start THEN pl ELSE s.acc.pl \o pl              \* sender-side message so far
        done  == seg \in {SegNone, SegLast}
        msg   == Sent(i, proto, whole)
        deliver == IF done THEN << msg.p >> ELSE << >>
        acc2  == IF done THEN Idle ELSE [busy |-> TRUE, pl |-> whole, nseg |-> k + 1]
    IN
    /\ steps < MaxFrames
    /\ (start <=> ~s.acc.busy)
    /\ (seg = SegMid => s.acc.nseg < MaxSegs - 1)
    /\ (fault # "none" => nfaults < MaxFaults)
    /\ (fault \in {"ver", "mt"} => seg \in {SegMid, SegLast})      \* corruption of continuation segments only
    /\ (fault = "hold" => s.held = << >>)
    /\ steps' = steps + 1
    /\ nfaults' = IF fault = "none" THEN nfaults ELSE nfaults + 1
    /\ sent' = IF done THEN sent \cup {msg} ELSE sent
    /\ snd' = [snd EXCEPT ![i] = [ctr |-> ctr, msgNo |-> msgNo, acc |-> acc2,
                                  last |-> IF fault \in {"drop", "hold"} THEN s.last
                                           ELSE [frame |-> frame, seg |-> seg, ver |-> ver, mt |-> mt, ctr |-> ctr, pl |-> pl, proto |-> proto],
                                  held |-> IF fault = "hold"
                                           THEN [frame |-> frame, seg |-> seg, ver |-> ver, mt |-> mt, ctr |-> ctr, pl |-> pl, proto |-> proto]
                                           ELSE s.held]]
    /\ IF fault \in {"drop", "hold"}
       THEN /\ UNCHANGED << pending, run >>
            /\ res' = NoRes
            /\ hist' = [key |-> Append(hist.key, Label(i, seg, sz, tailKind, fault)),
                         last |-> [op |-> "sent", msgs |-> IF done THEN << msg >> ELSE << >>, fault |-> fault]]
       ELSE /\ FeedFrame(i, frame, seg, ver, mt, ctr, pl, proto, deliver, fault # "none")
            /\ hist' = [key |-> Append(hist.key, Label(i, seg, sz, tailKind, fault)),
                         last |-> [op |-> "decode", in |-> frame,
                                   meta |-> [ep |-> i, seg |-> seg, fault |-> fault,
                                             sent |-> IF done THEN << msg >> ELSE << >>,
                                             deliver |-> IF nfaults' = 0 THEN << deliver >> ELSE << >>]]]

(* feed a recorded frame again (duplicate) or a held-back one (reordering) *)
Refeed(i, which) ==
    LET s == snd[i]
        f == IF which = "dup" THEN s.last ELSE s.held
    IN
    /\ steps < MaxFrames
    /\ f # << >>
    /\ (which = "dup" => nfaults < MaxFaults)
    /\ steps' = steps + 1
    /\ nfaults' = IF which = "dup" THEN nfaults + 1 ELSE nfaults
    /\ snd' = [snd EXCEPT ![i].held = IF which = "rel" THEN << >> ELSE @,
                          ![i].last = IF which = "rel" THEN f ELSE @]
    /\ UNCHANGED sent
    /\ FeedFrame(i, f.frame, f.seg, f.ver, f.mt, f.ctr, f.pl, f.proto, << >>, TRUE)
    /\ hist' = [key |-> Append(hist.key, 100000 * i + (IF which = "dup" THEN 1 ELSE 2)),
                 last |-> [op |-> "decode", in |-> f.frame,
                           meta |-> [ep |-> i, seg |-> f.seg, fault |-> which, sent |-> << >>, deliver |-> << >>]]]

TailKinds == IF Trailing THEN {"none", "junk", "pad"} ELSE {"none"}

Next ==
    /\ steps < MaxFrames
    /\ \E i \in E :
         \/ \E fault \in FaultKinds :
              \/ Produce(i, SegNone, 1, "none", fault)
              \/ \E sz \in SegSizes, seg \in {SegFirst, SegMid, SegLast}, tk \in TailKinds :
                     Produce(i, seg, sz, tk, fault)
         \/ Refeed(i, "dup")
         \/ Refeed(i, "rel")

Spec == Init /\ [][Next]_vars

(* ---- properties ------------------------------------------------------------ *)
(* delivered packet d (DecodedPkt record) equals logical message p of endpoint i *)
Same(d, i, p) ==
    /\ d.dev = Ep(i)[1] /\ d.st = Ep(i)[2]
    /\ d.mt = p.mt /\ d.pt = p.pt /\ d.ver = p.ver /\ d.ts = p.ts
    /\ (p.mt = MtData => d.ifid = p.ifid)
    /\ (p.mt \in {MtStatus, MtVendor} => d.vid = p.vid)
    /\ NoSegBits(d.fl) = NoSegBits(p.fl)
    /\ d.pl = p.pl /\ d.len = Len(p.pl) /\ d.valid

(* C05: without faults every call returns exactly what the sender-side ghost expects *)
InvC05 == (res.has /\ res.clean) =>
              /\ Len(res.out) = Len(res.deliver)
              /\ \A x \in 1..Len(res.out) : Same(res.out[x], res.ep, res.deliver[x])

(* C06 *)
NoCorruption == res.has => \A x \in 1..Len(res.out) : \E m \in sent : m.ep = Ep(res.ep) /\ Same(res.out[x], res.ep, m.p)
Recovery     == (res.has /\ res.runDone) => \E x \in 1..Len(res.out) : Same(res.out[x], res.ep, res.runMsg)
InvC06 == NoCorruption /\ Recovery

(* the decoder holds state exactly for the endpoints whose run is open *)
InvPendingIsRun == DOMAIN pending = {Ep(i) : i \in {j \in E : run[j].on}}

(* ---- replay cases ---------------------------------------------------------- *)
DumpEdges == DumpCases => PrintT(<< "EDGE", hist'.key, ToJson(hist'.last) >>)

=============================================================================
