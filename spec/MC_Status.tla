----------------------------- MODULE MC_Status -----------------------------
(* All histories of the status tracker over a small alphabet (C16): the       *)
(* operational vector model refines the abstract latest-message map after     *)
(* every operation, lookups return the index of the matching entry or the     *)
(* element count, messages for unknown devices or of other kinds change       *)
(* nothing.  The state graph is finite and explored completely (no depth      *)
(* bound); every transition is replayed on the real Status object.            *)
EXTENDS Status, TLC, Json

CONSTANTS Devs, UnknownDevs, Ifs, Tags, DumpCases

VARIABLES vec, map, hist
vars == << vec, map, hist >>
View == << vec, map >>

Cm(d, t) == [dev |-> d, st |-> 0, ver |-> 1, mt |-> 3, pt |-> 1, ts |-> << 0, 0, 0, 0, 0, 0, d, t >>, ifid |-> << 0, 0, 0, 0 >>,
             vid |-> 10 * d + t, fl |-> 0, pl |-> [j \in 1..36 |-> IF j = 1 THEN t ELSE 0]]
If(d, i, t) == [dev |-> d, st |-> 0, ver |-> 1, mt |-> 3, pt |-> 2, ts |-> << 0, 0, 0, 0, 0, i, d, t >>, ifid |-> << 0, 0, 0, 0 >>,
                vid |-> 100 * i + t, fl |-> 0, pl |-> << 0, 0, 0, i >> \o [j \in 1..36 |-> IF j = 1 THEN t ELSE 0]]
(* packets that are no status messages; their payload-type byte alone may look like one (CAN 0x0101, CAN-FD 0x0102, ...) *)
DataKinds == << << 1, 1 >>, << 1, 2 >>, << 1, 255 >>, << 2, 2 >>, << 255, 1 >> >>
Data(d, k) == [dev |-> d, st |-> 0, ver |-> 1, mt |-> DataKinds[k][1], pt |-> DataKinds[k][2], ts |-> << 0, 0, 0, 0, 0, 0, d, 9 >>,
               ifid |-> << 0, 0, 0, 1 >>, vid |-> 0, fl |-> 0, pl |-> [j \in 1..40 |-> IF j = 4 THEN 2 ELSE 0]]
IfId(i) == << 0, 0, 0, i >>

Init == vec = << >> /\ map = EmptyMap /\ hist = [key |-> << >>, last |-> [op |-> "new"]]

Do(v2, m2, label, op) ==
    /\ vec' = v2 /\ map' = m2
    /\ hist' = [key |-> Append(hist.key, label), last |-> op]

AllDevs == Devs \cup UnknownDevs

Next ==
    \/ \E d \in Devs, t \in Tags :
          LET p == Cm(d, t) IN Do(VecUpdate(vec, p), MapUpdate(map, p), 1000 + 10 * d + t, [op |-> "update", pkt |-> p])
    \/ \E d \in AllDevs, i \in Ifs, t \in Tags :
          LET p == If(d, i, t) IN Do(VecUpdate(vec, p), MapUpdate(map, p), 2000 + 100 * d + 10 * i + t, [op |-> "update", pkt |-> p])
    \/ \E d \in AllDevs, k \in 1..Len(DataKinds) :
          LET p == Data(d, k) IN Do(VecUpdate(vec, p), MapUpdate(map, p), 3000 + 10 * d + k, [op |-> "update", pkt |-> p])
    \/ \E d \in AllDevs : Do(VecRemoveDev(vec, d), MapRemoveDev(map, d), 4000 + d, [op |-> "removeDev", dev |-> d])
    \/ \E d \in AllDevs, i \in Ifs :
          Do(VecRemoveIf(vec, d, IfId(i)), MapRemoveIf(map, d, IfId(i)), 5000 + 10 * d + i, [op |-> "removeIf", dev |-> d, ifid |-> IfId(i)])
    \/ Do(<< >>, EmptyMap, 6000, [op |-> "clear"])

Spec == Init /\ [][Next]_vars

InvC16 ==
    /\ VecWellFormed(vec)                          \* exactly one entry per id
    /\ VecAsMap(vec) = map                         \* the latest-message map
    /\ \A d \in AllDevs : LookupDev(vec, d) = (IF d \in DOMAIN map THEN LookupDev(vec, d) ELSE Len(vec))
    /\ \A d \in AllDevs : d \in DOMAIN map => vec[LookupDev(vec, d) + 1].dev = d
    /\ \A d \in UnknownDevs : d \notin DOMAIN map  \* never sent a capture-module status

DumpEdges == DumpCases => PrintT(<< "EDGE", hist'.key, ToJson(hist'.last) >>)
=============================================================================
