------------------------------ MODULE DecProps ------------------------------
(* Decoder-side properties (C02 output bound, C04, C05, C06, C17, C18) as     *)
(* operators over the frames fed and the packets observed.  The ghost state   *)
(* "run" is computed from the frame sequence alone: for each endpoint the     *)
(* clean run of segments in progress (first segment, then segments with       *)
(* consecutive counters and unchanged version / message type, nothing else of *)
(* that endpoint in between).                                                  *)
EXTENDS Frames

NoRun == [on |-> FALSE]

MsgOK(b, o) == MsgComplete(b, o) /\ ~ErrInPayload(At(b, o + 12)) /\ At(b, o + 13) # 0

(* effect of the messages of frame b, from offset o, on the run r of the       *)
(* frame's endpoint; done = a last segment completed the run in this frame     *)
RECURSIVE GhostWalk(_, _, _, _)
GhostWalk(b, o, r, h) ==
    IF Len(b) - o <= 0 THEN [run |-> r, done |-> FALSE]
    ELSE IF ~MsgOK(b, o) THEN [run |-> NoRun, done |-> FALSE]
    ELSE LET n   == U16(b, o + 14)
             seg == SegOf(At(b, o + 12))
             pl  == Slice(b, o + 16, n)
         IN
         IF seg = SegNone THEN GhostWalk(b, o + 16 + n, NoRun, h)
         ELSE IF seg = SegFirst THEN
             [run |-> [on |-> TRUE, ver |-> h.ver, mt |-> h.mt, ctr |-> h.seq, bytes |-> 16 + n,
                       mh |-> Slice(b, o, 16), pl |-> pl],
              done |-> FALSE]
         ELSE IF r.on /\ r.ver = h.ver /\ r.mt = h.mt /\ h.seq = (r.ctr + 1) % 65536 THEN
             IF seg = SegLast
             THEN [run |-> NoRun, done |-> TRUE, ver |-> r.ver, mt |-> r.mt, mh |-> r.mh, pl |-> r.pl \o pl]
             ELSE [run |-> [r EXCEPT !.ctr = h.seq, !.bytes = @ + 16 + n, !.pl = @ \o pl], done |-> FALSE]
         ELSE [run |-> NoRun, done |-> FALSE]

IsCmp(b) == Len(b) >= 8 /\ b[1] # 0
EpOf(b) == << U16(b, 2), At(b, 5) >>

RunOf(runs, e) == IF e \in DOMAIN runs THEN runs[e] ELSE NoRun
SetRun(runs, e, r) ==
    IF r.on THEN [x \in (DOMAIN runs) \cup {e} |-> IF x = e THEN r ELSE runs[x]]
    ELSE [x \in (DOMAIN runs) \ {e} |-> runs[x]]

(* ghost step for one fed buffer *)
GhostStep(runs, b) ==
    IF ~IsCmp(b) THEN [runs |-> runs, done |-> FALSE, w |-> NoRun, after |-> NoRun]
    ELSE LET e == EpOf(b)
             w == GhostWalk(b, 8, RunOf(runs, e), HdrOf(b))
         IN [runs |-> SetRun(runs, e, w.run), done |-> w.done, w |-> w, after |-> w.run]

(* ---- C04: decoded packets report exactly what is on the wire ---------------- *)
(* applies to capture-module frames all of whose complete messages are          *)
(* unsegmented and free of the error-in-payload flag                            *)
RECURSIVE AllPlain(_, _)
AllPlain(b, o) ==
    IF ~MsgComplete(b, o) \/ At(b, o + 13) = 0 THEN TRUE
    ELSE SegOf(At(b, o + 12)) = SegNone /\ ~ErrInPayload(At(b, o + 12)) /\ AllPlain(b, o + 16 + U16(b, o + 14))

InC04Domain(b) == IsCmp(b) /\ AllPlain(b, 8)

(* observed packet d against message m of frame b *)
MatchesWire(d, b, m) ==
    LET w    == WirePacket(b, m)
        kind == Kind(w.mt, w.pt)
    IN
    /\ d.dev = w.dev /\ d.st = w.st /\ d.ver = w.ver
    /\ d.ts = w.ts /\ d.fl = w.fl /\ d.len = w.len
    /\ (w.mt = MtData => d.ifid = w.ifid)
    /\ (w.mt \in {MtStatus, MtVendor} => d.vid = w.vid)
    /\ (MustBeInvalid(kind, w.pl) => ~d.valid)
    /\ ((MustBeValid(kind, w.pl) /\ w.mt # 0) => d.valid)
    /\ (d.valid => d.mt = w.mt /\ d.pt = w.pt /\ d.pl = w.pl)

DecodedMatchesWire(b, out) ==
    LET ms == Walk(b).msgs IN
    /\ Len(out) = Len(ms)
    /\ \A x \in 1..Len(ms) : MatchesWire(out[x], b, ms[x])

(* ---- C05 / C06: a delivered packet against a logical message --------------- *)
Delivered(d, dev, st, p) ==
    /\ d.dev = dev /\ d.st = st
    /\ d.mt = p.mt /\ d.pt = p.pt /\ d.ver = p.ver /\ d.ts = p.ts
    /\ (p.mt = MtData => d.ifid = p.ifid)
    /\ (p.mt \in {MtStatus, MtVendor} => d.vid = p.vid)
    /\ NoSegBits(d.fl) = NoSegBits(p.fl)
    /\ d.pl = p.pl /\ d.len = Len(p.pl)

(* the packet a completed clean run must deliver: header fields of the first   *)
(* segment, concatenation of the declared payload bytes                        *)
RunDelivered(d, b, w) ==
    /\ d.dev = U16(b, 2) /\ d.st = At(b, 5)
    /\ d.ver = w.ver
    /\ d.ts = Slice(w.mh, 0, 8)
    /\ NoSegBits(d.fl) = NoSegBits(At(w.mh, 12))
    /\ d.len = Len(w.pl)
    /\ (d.valid => d.mt = w.mt /\ d.pt = At(w.mh, 13) /\ d.pl = w.pl)
    /\ (w.mt = MtData => d.ifid = Slice(w.mh, 8, 4))
    /\ (w.mt \in {MtStatus, MtVendor} => d.vid = U16(w.mh, 10))

(* ---- C02: at most one packet per 12 input bytes ---------------------------- *)
OutputBound(b, out) == 12 * Len(out) <= Len(b)

=============================================================================
