------------------------------ MODULE TraceVal ------------------------------
(* Judge for recorded executions on stores of Packet / Payload objects (C14). *)
(* The specification is the store semantics: copy and assignment give dst the *)
(* value of src, moves give dst the former value of src and leave src         *)
(* unspecified ("U"), nothing else changes; equality is reflexive, symmetric, *)
(* the negation of inequality, and field-by-field comparison when both        *)
(* payloads are non-empty.  A value is the full snapshot of an object.        *)
EXTENDS Naturals, Sequences, FiniteSets, TLC, Json, IOUtils

Log == ndJsonDeserialize(IOEnv.TRACE)

VARIABLES l, ep, live, store, cnt
vars == << l, ep, live, store, cnt >>

U == [u |-> TRUE]
IsU(v) == "u" \in DOMAIN v
Empty == [k \in {} |-> U]
Cnt0 == [ops |-> 0, copies |-> 0, moves |-> 0, assigns |-> 0, self_assigns |-> 0, assigns_onto_equal |-> 0, eqs |-> 0,
         eq_true |-> 0, eq_nonempty |-> 0, mutates |-> 0]
Init == l = 1 /\ ep = "" /\ live = FALSE /\ store = Empty /\ cnt = Cnt0

Has(r, f) == f \in DOMAIN r
Report(fails) == IF fails = {} THEN TRUE ELSE PrintT(<< "FAIL", l, ep, fails >>)

Obs(e) == [k \in {e.slots[x].k : x \in 1..Len(e.slots)} |-> (e.slots[CHOOSE x \in 1..Len(e.slots) : e.slots[x].k = k]).v]

With(s, k, v) == [j \in DOMAIN s \cup {k} |-> IF j = k THEN v ELSE s[j]]
Specified(s) == {k \in DOMAIN s : ~IsU(s[k])}

(* observed store agrees with the expected one on every specified slot, and holds the same objects *)
Agrees(obs, exp) == DOMAIN obs = DOMAIN exp /\ \A k \in Specified(exp) : obs[k] = exp[k]

Expected(e) ==
    CASE e.e = "val.make"    -> With(store, e.slot, Obs(e)[e.slot])
      [] e.e = "val.copy"    -> With(store, e.dst, store[e.src])
      [] e.e = "val.assign"  -> With(store, e.dst, store[e.src])
      [] e.e = "val.move"    -> With(With(store, e.src, U), e.dst, store[e.src])
      [] e.e = "val.massign" -> IF e.src = e.dst THEN With(store, e.src, U) ELSE With(With(store, e.src, U), e.dst, store[e.src])
      [] e.e = "val.mutate"  -> With(store, e.slot, Obs(e)[e.slot])
      [] e.e = "val.eq"      -> store
      [] e.e = "val.selfset" -> store
      (* the source is mutated through a reference taken before the copy: the copy keeps the source's former value *)
      [] e.e = "val.copyref" -> With(With(store, e.dst, store[e.src]), e.src, Obs(e)[e.src])

EqFails(e) ==
    LET x == store[e.a]  y == store[e.b] IN
    IF IsU(x) \/ IsU(y) THEN {}
    ELSE IF \/ (e.a = e.b /\ ~e.eq)                                   \* reflexive
            \/ e.eq # e.eqrev                                          \* symmetric
            \/ (Has(e, "neq") /\ e.neq = e.eq)                         \* inequality is the negation
            \/ (x.len > 0 /\ y.len > 0 /\ e.eq # (x = y))              \* field by field for non-empty payloads
            \/ (e.eq /\ x.len # y.len)
         THEN {"C14"} ELSE {}

OpFails(e) ==
    LET exp == Expected(e) IN
    (IF ~Agrees(Obs(e), exp) THEN {"C14"} ELSE {})
    \cup (IF e.e = "val.eq" THEN EqFails(e) ELSE {})

Ops == {"val.make", "val.copy", "val.assign", "val.move", "val.massign", "val.mutate", "val.eq", "val.selfset", "val.copyref"}

Step ==
    /\ l <= Len(Log)
    /\ l' = l + 1
    /\ LET e == Log[l] IN
       CASE e.e = "begin" -> ep' = e.id /\ live' = TRUE /\ store' = Empty /\ UNCHANGED cnt
         [] e.e = "crash" -> Report(IF live THEN {"CRASH", "C14"} ELSE {}) /\ live' = FALSE /\ UNCHANGED << ep, store, cnt >>
         [] e.e \notin {"begin", "crash"} /\ ~live -> UNCHANGED << ep, live, store, cnt >>
         [] live /\ e.e \in Ops ->
              LET fails == OpFails(e)  exp == Expected(e) IN
              /\ Report(fails)
              /\ live' = (fails = {})
              /\ store' = exp
              /\ cnt' = [cnt EXCEPT !.ops = @ + 1,
                            !.copies = @ + (IF e.e \in {"val.copy", "val.copyref"} THEN 1 ELSE 0),
                            !.moves = @ + (IF e.e \in {"val.move", "val.massign"} THEN 1 ELSE 0),
                            !.assigns = @ + (IF e.e = "val.assign" THEN 1 ELSE 0),
                            !.self_assigns = @ + (IF e.e = "val.assign" /\ e.src = e.dst THEN 1 ELSE 0),
                            !.assigns_onto_equal = @ + (IF e.e = "val.assign" /\ e.src # e.dst /\ ~IsU(store[e.dst]) /\ ~IsU(store[e.src])
                                                           /\ store[e.dst].len = store[e.src].len /\ store[e.dst] # store[e.src] THEN 1 ELSE 0),
                            !.eqs = @ + (IF e.e = "val.eq" THEN 1 ELSE 0),
                            !.eq_true = @ + (IF e.e = "val.eq" /\ e.eq THEN 1 ELSE 0),
                            !.eq_nonempty = @ + (IF e.e = "val.eq" /\ ~IsU(store[e.a]) /\ ~IsU(store[e.b]) /\ store[e.a].len > 0 /\ store[e.b].len > 0 THEN 1 ELSE 0),
                            !.mutates = @ + (IF e.e = "val.mutate" THEN 1 ELSE 0)]
              /\ UNCHANGED ep
         [] OTHER -> Report({"UNKNOWN-EVENT"}) /\ UNCHANGED << ep, live, store, cnt >>

Done == l > Len(Log) /\ UNCHANGED vars
Next == Step \/ Done
Spec == Init /\ [][Next]_vars
Consumed == (l = Len(Log) + 1) =>
                /\ \A k \in DOMAIN cnt : PrintT(<< "COUNT", k, cnt[k] >>)
                /\ PrintT(<< "DONE", Len(Log) >>)
=============================================================================
