------------------------------ MODULE Layout ------------------------------
(* Field tables of every header and payload class, written from the ASAM CMP *)
(* 1.0 and TECMP wire layouts (not from the library's headers).  A field is   *)
(* [n: name, o: absolute bit offset inside the object, MSB-first (bit 0 is    *)
(* the most significant bit of byte 0), w: width in bits].  Multi-byte fields *)
(* are big-endian, so every field is one contiguous run of bits.              *)
(*   fields: a partition of the non-reserved bits                             *)
(*   views : other accessors over the same bits (single flags, unions)        *)
(* Get / Put read and write exactly the bits of a field; nothing is masked or *)
(* shifted, so "nothing else changes" is a statement about the other bits.    *)
EXTENDS Bits

F(n, o, w) == [n |-> n, o |-> o, w |-> w]
Flag(n, word, mask) ==        \* single-bit flag "mask" (a power of two) of a 16 bit flag word at bit offset word
    F(n, word + 15 - (CHOOSE k \in 0..15 : 2 ^ k = mask), 1)
Flag8(n, word, mask) == F(n, word + 7 - (CHOOSE k \in 0..7 : 2 ^ k = mask), 1)

CanFlags == << Flag("crcErr", 0, 1), Flag("ackErr", 0, 2), Flag("passiveAckErr", 0, 4), Flag("activeAckErr", 0, 8),
               Flag("ackDelErr", 0, 16), Flag("formErr", 0, 32), Flag("stuffErr", 0, 64), Flag("crcDelErr", 0, 128),
               Flag("eofErr", 0, 256), Flag("bitErr", 0, 512), Flag("r0", 0, 1024), Flag("srrDom", 0, 2048),
               Flag("brs", 0, 4096), Flag("esi", 0, 8192) >>

(* "segMask" is the two segmentation bits addressed through the flag accessors with the two-bit mask CommonFlags::seg: *)
(* set = both bits, clear = neither, get = any (values 00 and 11 only)                                                  *)
CommonFlags(word) == << Flag8("recalc", word, 1), Flag8("insync", word, 2), F("segmentType", word + 4, 2), F("segMask", word + 4, 2),
                        Flag8("diOnIf", word, 16), Flag8("overflow", word, 32), Flag8("errorInPayload", word, 64) >>

Table0 == [
  cmpHeader |-> [size |-> 8,
      fields |-> << F("version", 0, 8), F("deviceId", 16, 16), F("messageType", 32, 8), F("streamId", 40, 8),
                    F("sequenceCounter", 48, 16) >>,
      views  |-> << >>],
  msgHeader |-> [size |-> 16,
      fields |-> << F("timestamp", 0, 64), F("interfaceId", 64, 32), F("commonFlags", 96, 8), F("payloadType", 104, 8),
                    F("payloadLength", 112, 16) >>,
      views  |-> << F("vendorId", 80, 16) >> \o CommonFlags(96)],
  can |-> [size |-> 16,
      fields |-> << F("flags", 0, 16), F("ide", 32, 1), F("rtr", 33, 1), F("rsvd", 34, 1), F("id", 35, 29),
                    F("crcSupport", 64, 1), F("crc", 81, 15), F("errorPosition", 96, 16), F("dlc", 112, 8),
                    F("dataLength", 120, 8) >>,
      views  |-> CanFlags],
  canfd |-> [size |-> 16,
      fields |-> << F("flags", 0, 16), F("ide", 32, 1), F("rrs", 33, 1), F("rsvd", 34, 1), F("id", 35, 29),
                    F("crcSupport", 64, 1), F("sbcSupport", 65, 1), F("sbcParity", 71, 1), F("sbc", 72, 3), F("crc", 75, 21),
                    F("errorPosition", 96, 16), F("dlc", 112, 8), F("dataLength", 120, 8) >>,
      views  |-> CanFlags],
  lin |-> [size |-> 8,
      fields |-> << F("flags", 0, 16), F("parityBits", 32, 2), F("linId", 34, 6), F("checksum", 48, 8), F("dataLength", 56, 8) >>,
      views  |-> << Flag("checksumErr", 0, 1), Flag("collisionErr", 0, 2), Flag("parityErr", 0, 4), Flag("noSlaveRespErr", 0, 8),
                    Flag("syncErr", 0, 16), Flag("framingErr", 0, 32), Flag("shortDomErr", 0, 64), Flag("longDomErr", 0, 128),
                    Flag("wup", 0, 256) >>],
  eth |-> [size |-> 6,
      fields |-> << F("flags", 0, 16), F("dataLength", 32, 16) >>,
      views  |-> << Flag("fcsErr", 0, 1), Flag("frameShorterThan64b", 0, 2), Flag("txPortDown", 0, 4), Flag("collision", 0, 8),
                    Flag("frameTooLongErr", 0, 16), Flag("phyErr", 0, 32), Flag("frameTruncated", 0, 64), Flag("fcsSupport", 0, 128) >>],
  analog |-> [size |-> 16,
      fields |-> << F("flags", 0, 16), F("unit", 24, 8), F("sampleInterval", 32, 32), F("sampleOffset", 64, 32),
                    F("sampleScalar", 96, 32) >>,
      views  |-> << F("sampleDt", 14, 2) >>],
  cm |-> [size |-> 26,
      fields |-> << F("uptime", 0, 64), F("gmIdentity", 64, 64), F("gmClockQuality", 128, 32), F("currentUtcOffset", 160, 16),
                    F("timeSource", 176, 8), F("domainNumber", 184, 8), F("gptpFlags", 200, 8) >>,
      views  |-> << >>],
  if |-> [size |-> 36,
      fields |-> << F("interfaceId", 0, 32), F("msgTotalRx", 32, 32), F("msgTotalTx", 64, 32), F("msgDroppedRx", 96, 32),
                    F("msgDroppedTx", 128, 32), F("errorsTotalRx", 160, 32), F("errorsTotalTx", 192, 32), F("interfaceType", 224, 8),
                    F("interfaceStatus", 232, 8), F("featureSupportBitmask", 256, 32) >>,
      views  |-> << >>],
  tecmpHeader |-> [size |-> 28,
      fields |-> << F("isTecmp", 0, 8), F("deviceId", 8, 8), F("sequenceCounter", 16, 16), F("version", 32, 8), F("messageType", 40, 8),
                    F("dataType", 48, 16), F("deviceFlags", 80, 16), F("interfaceId", 96, 32), F("timestamp", 128, 64),
                    F("payloadLength", 192, 16), F("dataFlags", 208, 16) >>,
      views  |-> << >>],
  tecmpCan |-> [size |-> 5,
      fields |-> << F("arbId", 0, 32), F("dlc", 32, 8) >>, views |-> << >>],
  tecmpLin |-> [size |-> 2,
      fields |-> << F("pid", 0, 8), F("dataLength", 8, 8) >>, views |-> << >>],
  tecmpIf |-> [size |-> 28,
      fields |-> << F("vendorId", 0, 8), F("cmVersion", 8, 8), F("cmType", 16, 8), F("vendorDataLength", 32, 16), F("deviceId", 48, 16),
                    F("serialNumber", 64, 32), F("interfaceId", 96, 32), F("messagesTotal", 128, 32), F("errorsTotal", 160, 32),
                    F("linkStatus", 192, 8), F("linkQuality", 200, 8), F("linkupTime", 208, 16) >>,
      views  |-> << >>],
  tecmpCm |-> [size |-> 36,
      fields |-> << F("vendorId", 0, 8), F("deviceVersion", 8, 8), F("deviceType", 16, 8), F("vendorDataLength", 32, 16),
                    F("deviceId", 48, 16), F("serialNumber", 64, 32), F("swVersionMajor", 104, 8), F("swVersionMinor", 112, 8),
                    F("swVersionPatch", 120, 8), F("hwVersionMajor", 128, 8), F("hwVersionMinor", 136, 8), F("bufferFill", 144, 8),
                    F("isBufferOverflow", 152, 8), F("bufferSize", 160, 32), F("lifecycle", 192, 64), F("voltageWhole", 256, 8),
                    F("voltageFraction", 264, 8), F("chassisTemp", 272, 8), F("silliconTemp", 280, 8) >>,
      views  |-> << >>],
  (* no wire image: the 32 bit value of PayloadType, and the logical state of a Packet serialised by the executor *)
  payloadType |-> [size |-> 4,
      fields |-> << F("high", 0, 16), F("messageType", 16, 8), F("rawPayloadType", 24, 8) >>,
      views  |-> << F("type", 0, 32) >>],
  payload |-> [size |-> 4,               \* a generic Payload: its 32 bit type word, followed by its data bytes
      fields |-> << F("high", 0, 16), F("messageType", 16, 8), F("rawPayloadType", 24, 8) >>,
      views  |-> << F("type", 0, 32) >>],
  packet |-> [size |-> 22,
      fields |-> << F("version", 0, 8), F("deviceId", 8, 16), F("streamId", 24, 8), F("sequenceCounter", 32, 16),
                    F("timestamp", 48, 64), F("interfaceId", 112, 32), F("vendorId", 144, 16), F("commonFlags", 160, 8),
                    F("segmentType", 168, 8) >>,
      views  |-> << Flag8("recalc", 160, 1), Flag8("insync", 160, 2), Flag8("diOnIf", 160, 16), Flag8("overflow", 160, 32),
                    Flag8("errorInPayload", 160, 64), F("segMask", 164, 2) >>]
]

(* the public nested Header classes share the tables of their payload classes *)
HeaderAlias == [canHeader |-> "can", canfdHeader |-> "canfd", linHeader |-> "lin", ethHeader |-> "eth", analogHeader |-> "analog",
                cmHeader |-> "cm", ifHeader |-> "if"]
Table == [c \in DOMAIN Table0 \cup DOMAIN HeaderAlias |-> IF c \in DOMAIN Table0 THEN Table0[c] ELSE Table0[HeaderAlias[c]]]

Classes == DOMAIN Table
WireClasses == Classes \ {"payloadType", "payload", "packet"}

AllFields(c) == Table[c].fields \o Table[c].views
FieldOf(c, name) == LET a == AllFields(c) IN a[CHOOSE k \in 1..Len(a) : a[k].n = name]
HasField(c, name) == \E k \in 1..Len(AllFields(c)) : AllFields(c)[k].n = name

BitsOfField(f) == (f.o + 1)..(f.o + f.w)           \* 1-based positions in the MSB-first bit sequence
Overlap(f, g) == BitsOfField(f) \cap BitsOfField(g) # {}

CoveredBits(c) == UNION {BitsOfField(Table[c].fields[k]) : k \in 1..Len(Table[c].fields)}
ReservedBits(c) == (1..(8 * Table[c].size)) \ CoveredBits(c)

(* ---- reading and writing a field of an object's bytes ------------------------ *)
HdrBits(c, b) == BytesToBits(SubSeq(b, 1, Table[c].size))

Get(c, b, f) == SubSeq(HdrBits(c, b), f.o + 1, f.o + f.w)                \* bit sequence of width f.w

Put(c, b, f, vbits) ==
    LET hb  == HdrBits(c, b)
        nb  == [i \in 1..Len(hb) |-> IF i \in BitsOfField(f) THEN vbits[i - f.o] ELSE hb[i]]
    IN BitsToBytes(nb) \o SubSeq(b, Table[c].size + 1, Len(b))

(* bits that are reserved in every layout view that contains field f: outside f, and covered by no field or only by   *)
(* fields that overlap f (the message header's bytes 8..9 under the 16 bit vendor id, which the 32 bit interface id of *)
(* data messages also covers)                                                                                         *)
ViewReserved(c, f) ==
    {b \in (1..(8 * Table[c].size)) \ BitsOfField(f) :
        \A k \in 1..Len(Table[c].fields) : b \in BitsOfField(Table[c].fields[k]) => Overlap(Table[c].fields[k], f)}
ReservedOf(c, b) == LET hb == HdrBits(c, b) IN [i \in ReservedBits(c) |-> hb[i]]

(* ---- default-constructed objects --------------------------------------------- *)
(* all zero except: CMP header version 1; TECMP header message type 0xFF and a data type whose first byte is 0xFF *)
Default(c) ==
    CASE c = "cmpHeader"   -> << 1, 0, 0, 0, 0, 0, 0, 0 >>
      [] c = "tecmpHeader" -> << 0, 0, 0, 0, 0, 255, 255, 0 >> \o Zeros(20)
      [] c = "cm"          -> Zeros(36)           \* header and five empty length-prefixed fields
      [] c = "cmHeader"    -> Zeros(26)
      [] c = "ifHeader"    -> Zeros(36)
      [] c = "if"          -> Zeros(40)           \* header, stream id count and vendor data length
      [] c = "packet"      -> << 1 >> \o Zeros(21)
      [] OTHER             -> Zeros(Table[c].size)

=============================================================================
