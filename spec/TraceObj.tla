------------------------------ MODULE TraceObj ------------------------------
(* Judge for recorded setter / getter / builder executions on header and      *)
(* payload objects (C11, C12, C13).  The specification state of an object is  *)
(* its raw bytes (Objects as state machines: new / load / set / setData); the *)
(* last observed getter values are kept for the API-level half of C11.        *)
(*   C11  the getter of the written field returns the value, every getter of  *)
(*        a field that does not share bits with it returns what it returned   *)
(*        before, data bytes after the header and the size are unchanged      *)
(*   C12  the value sits at the offset / width / bit position of Layout.tla,  *)
(*        reserved bits are unchanged (zero in default objects), every getter *)
(*        returns the bits the layout assigns to it                            *)
(*   NC   raw bytes after = Put(raw bytes before, field, value)               *)
EXTENDS Layout, Frames, Tecmp, TLC, Json, IOUtils

Log == ndJsonDeserialize(IOEnv.TRACE)

VARIABLES l, ep, live, st, cnt
vars == << l, ep, live, st, cnt >>

St0 == [has |-> FALSE, cls |-> "", raw |-> << >>, get |-> [x \in {} |-> << >>]]
Cnt0 == [rawhdrs |-> 0, sets |-> 0, loads |-> 0, news |-> 0, flag_sets |-> 0, wide_sets |-> 0, nonzero_background |-> 0, builds |-> 0,
         rebuilds |-> 0]

Init == l = 1 /\ ep = "" /\ live = FALSE /\ st = St0 /\ cnt = Cnt0

Has(r, f) == f \in DOMAIN r
Report(fails) == IF fails = {} THEN TRUE ELSE PrintT(<< "FAIL", l, ep, fails >>)

Known(c, get) == {g \in DOMAIN get : HasField(c, g)}

(* every getter returns the bits the layout assigns to it (value right-aligned in the logged bytes, high bits zero) *)
GettersMatch(c, raw, get) ==
    Len(raw) >= Table[c].size /\
    LET hb == HdrBits(c, raw) IN            \* the header's bits once, not once per getter
    \A g \in Known(c, get) :
        LET f == FieldOf(c, g)
            all == BytesToBits(get[g])
        IN /\ Len(all) >= f.w
           /\ SubSeq(all, Len(all) - f.w + 1, Len(all)) = SubSeq(hb, f.o + 1, f.o + f.w)
           /\ \A i \in 1..(Len(all) - f.w) : all[i] = 0

(* values derived from several fields: version strings of the TECMP capture-module status, validity of a payload type *)
DerivedOK(e) ==
    IF ~Has(e, "derived") THEN TRUE
    ELSE IF e.cls = "tecmpCm" /\ Len(e.raw) >= 18 THEN
        /\ e.derived.swVersion = VersionString(<< At(e.raw, 13), At(e.raw, 14), At(e.raw, 15) >>)
        /\ e.derived.hwVersion = VersionString(<< At(e.raw, 16), At(e.raw, 17) >>)
        /\ (Len(e.raw) >= 34 /\ Has(e.derived, "voltageCenti")) => e.derived.voltageCenti = 100 * At(e.raw, 32) + At(e.raw, 33)
    ELSE IF e.cls = "payloadType" /\ Len(e.raw) = 4 THEN e.derived.isValid = (e.raw[3] # 0 /\ e.raw[4] # 0)
    ELSE TRUE

NewFails(e) ==
    LET c == e.cls IN
    IF c \notin Classes THEN {"UNKNOWN-EVENT"}
    ELSE (IF \/ Len(e.raw) < Table[c].size
             \/ (Len(e.raw) >= Table[c].size /\ \E i \in ReservedBits(c) : HdrBits(c, e.raw)[i] # 0)      \* reserved bits zero
             \/ ~GettersMatch(c, e.raw, e.get)
          THEN {"C12"} ELSE {})
   \cup (IF e.raw # Default(c) THEN {"NC"} ELSE {})

LoadFails(e) ==
    LET c == e.cls IN
    IF c \notin Classes THEN {"UNKNOWN-EVENT"}
    ELSE (IF ~GettersMatch(c, e.raw, e.get) THEN {"C12"} ELSE {})
    \cup (IF c \in WireClasses /\ e.raw # (IF c \in {"cmpHeader", "msgHeader", "tecmpHeader"} \cup DOMAIN HeaderAlias
                                           THEN SubSeq(e.loaded, 1, Table[c].size) ELSE e.loaded)
          THEN {"NC"} ELSE {})

SetFails(e) ==
    LET c     == e.cls
        f     == FieldOf(c, e.f)
        vbits == LowBits(e.v, f.w)
        exp   == Put(c, st.raw, f, vbits)
        size  == Table[c].size
    IN
    IF ~st.has \/ c # st.cls \/ ~HasField(c, e.f) THEN {"UNKNOWN-EVENT"}
    ELSE IF Len(e.raw) < size \/ Len(st.raw) < size THEN {"C11", "C12", "NC"}          \* the object lost part of its header
    ELSE
        (IF \/ ~(Has(e.get, e.f) /\ LowBits(e.get[e.f], f.w) = vbits)
            \/ \E g \in Known(c, e.get) \cap DOMAIN st.get : g # e.f /\ ~Overlap(FieldOf(c, g), f) /\ e.get[g] # st.get[g]
            \/ \E g \in Known(c, e.get) \cap DOMAIN st.get :          \* a getter over a larger word: its bits outside the field
                 LET h == FieldOf(c, g) IN
                 /\ g # e.f /\ Overlap(h, f) /\ Len(BytesToBits(e.get[g])) >= h.w /\ Len(BytesToBits(st.get[g])) >= h.w
                 /\ LET ga == LowBits(e.get[g], h.w)  gb == LowBits(st.get[g], h.w) IN
                    \E i \in 1..h.w : (h.o + i) \notin BitsOfField(f) /\ ga[i] # gb[i]
            \/ Len(e.raw) # Len(st.raw)
            \/ SubSeq(e.raw, size + 1, Len(e.raw)) # SubSeq(st.raw, size + 1, Len(st.raw))
         THEN {"C11"} ELSE {})
   \cup (IF \/ Get(c, e.raw, f) # vbits
            \/ ReservedOf(c, e.raw) # ReservedOf(c, st.raw)
            \/ (LET ha == HdrBits(c, e.raw)  hb == HdrBits(c, st.raw) IN \E b \in ViewReserved(c, f) : ha[b] # hb[b])
            \/ ~GettersMatch(c, e.raw, e.get)
         THEN {"C12"} ELSE {})
   \cup (IF e.raw # exp THEN {"NC"} ELSE {})

(* ---- C13: builders ------------------------------------------------------------ *)
KindType == [can |-> << 1, 1 >>, canfd |-> << 1, 2 >>, lin |-> << 1, 3 >>, analog |-> << 1, 7 >>, eth |-> << 1, 8 >>,
             cm |-> << 3, 1 >>, if |-> << 3, 2 >>]
DataClasses == {"can", "canfd", "lin", "eth", "analog", "tecmpLin"}
Builders == DataClasses \cup {"cm", "if"}

Blank(b, i) == [b EXCEPT ![i] = 0]

BuildFails(e) ==
    LET c   == e.cls
        a   == e.args
        hdr == st.raw
    IN
    IF ~st.has \/ c # st.cls \/ c \notin Builders \/ Has(e, "nobuilder") THEN {"UNKNOWN-EVENT"}
    ELSE IF Len(hdr) < Table[c].size THEN {"C13", "NC"}                                    \* nothing left to build on
    ELSE
    LET exp == IF c \in DataClasses THEN RenderData(c, hdr, a.data)
               ELSE IF c = "cm" THEN RenderCm(hdr, a.desc, a.serial, a.hw, a.sw, a.vendor)
               ELSE RenderIf(hdr, a.ids, a.vendor)
        (* the DLC code is pinned down only for lengths that have one *)
        exact == IF c \in {"can", "canfd"} /\ ~HasDlcCode(Len(a.data))
                 THEN Len(e.raw) = Len(exp) /\ Blank(e.raw, 15) = Blank(exp, 15)
                 ELSE e.raw = exp
        size  == Table[c].size
        (* what the property states about the bytes: header fields set earlier preserved (the builder owns only the  *)
        (* length / DLC bytes), inner structure consistent, strings NUL terminated and zero padded to even length,   *)
        (* id list zero padded to even length, DLC code for lengths that have one, and the same bytes as a build of  *)
        (* the same arguments on a fresh object with the same header                                                *)
        owned == IF c \in {"can", "canfd"} THEN {15, 16} ELSE IF c = "lin" THEN {8} ELSE IF c = "eth" THEN {5, 6}
                 ELSE IF c = "tecmpLin" THEN {2} ELSE {}
        rawOK ==
            /\ Len(e.raw) >= size
            /\ \A i \in 1..size : i \notin owned => e.raw[i] = hdr[i]
            /\ Consistent(c, e.raw)
            (* "the getters return exactly the data and lengths supplied": the object holds the supplied bytes, *)
            (* all of them and nothing else, behind its header (getLength() = header size + supplied length)    *)
            /\ (c \in DataClasses => SubSeq(e.raw, size + 1, Len(e.raw)) = a.data)
            /\ (c \in {"can", "canfd"} /\ HasDlcCode(Len(a.data)) => At(e.raw, 14) = DlcCode(Len(a.data)))
            /\ (c = "cm" => LET w == CmFields(e.raw).fields IN
                              /\ Len(w) = 5
                              /\ \A x \in 1..4 : /\ w[x].len % 2 = 0 /\ w[x].len >= 1
                                                  /\ \E z \in 0..(w[x].len - 1) :             \* content, then only zeros
                                                        /\ \A y \in z..(w[x].len - 1) : At(e.raw, w[x].off + y) = 0
                                                        /\ \A y \in 0..(z - 1) : At(e.raw, w[x].off + y) # 0)
            /\ (c = "if" => LET w == IfFields(e.raw).fields IN
                              Len(w) = 2 /\ (w[1].len % 2 = 1 => At(e.raw, w[1].off + w[1].len) = 0))
            /\ (Has(e, "freshraw") => e.raw = e.freshraw)
        v == e.views
        viewsOK ==
            IF c \in {"can", "canfd", "lin", "eth", "tecmpLin"} THEN v.data = a.data /\ v.dataLength = Len(a.data)
            ELSE IF c = "analog" THEN
                LET ss == IF Get(c, hdr, FieldOf(c, "sampleDt")) = << 0, 0 >> THEN 2 ELSE 4 IN
                v.samplesCount = Len(a.data) \div ss /\ v.data = SubSeq(a.data, 1, ss * (Len(a.data) \div ss))
            ELSE IF c = "cm" THEN
                /\ v.desc = a.desc /\ v.serial = a.serial /\ v.hw = a.hw /\ v.sw = a.sw
                /\ v.vendor = a.vendor /\ v.vendorLength = Len(a.vendor) /\ v.vendorView = a.vendor
            ELSE /\ v.ids = a.ids /\ v.streamIdsCount = Len(a.ids) /\ v.vendor = a.vendor /\ v.vendorLength = Len(a.vendor)
        accepted ==
            /\ e.valid
            /\ ValidPayload(c, e.raw)                                   \* consistent by the specification's own rules
            /\ Has(e, "decoded") => /\ Len(e.decoded) = 1
                                     /\ e.decoded[1].valid /\ e.decoded[1].pl = e.raw
                                     /\ << e.decoded[1].mt, e.decoded[1].pt >> = KindType[c]
        (* acceptance is claimed for header states without bus-error flags and with enumerated fields in range *)
        clean == ~HasBusError(c, exp) /\ ~BadEnum(c, exp)
    IN (IF ~rawOK \/ ~viewsOK \/ (clean /\ ~accepted) \/ ~GettersMatch(c, e.raw, e.get) THEN {"C13"} ELSE {})
  \cup (IF ~exact THEN {"NC"} ELSE {})

Unch == UNCHANGED << ep, live, st, cnt >>

Step ==
    /\ l <= Len(Log)
    /\ l' = l + 1
    /\ LET e == Log[l] IN
       CASE e.e = "begin" ->
              /\ ep' = e.id /\ live' = TRUE /\ st' = St0 /\ UNCHANGED cnt
         [] e.e = "crash" ->
              /\ Report(IF live THEN {"CRASH", "C11", "C13"} ELSE {})
              /\ live' = FALSE /\ UNCHANGED << ep, st, cnt >>
         [] e.e \notin {"begin", "crash"} /\ ~live -> Unch
         [] live /\ e.e = "obj.new" ->
              /\ Report(NewFails(e))
              /\ st' = [has |-> TRUE, cls |-> e.cls, raw |-> e.raw, get |-> e.get]
              /\ cnt' = [cnt EXCEPT !.news = @ + 1]
              /\ UNCHANGED << ep, live >>
         [] live /\ e.e = "obj.load" ->
              /\ Report(LoadFails(e) \cup (IF DerivedOK(e) THEN {} ELSE {"NC"}))
              /\ st' = [has |-> TRUE, cls |-> e.cls, raw |-> e.raw, get |-> e.get]
              /\ cnt' = [cnt EXCEPT !.loads = @ + 1,
                                    !.nonzero_background = @ + (IF \E i \in 1..Len(e.raw) : e.raw[i] # 0 THEN 1 ELSE 0)]
              /\ UNCHANGED << ep, live >>
         [] live /\ e.e = "obj.set" ->
              /\ Report(SetFails(e) \cup (IF DerivedOK(e) THEN {} ELSE {"NC"}))
              /\ st' = [st EXCEPT !.raw = e.raw, !.get = e.get]       \* resynchronise on the observation
              /\ cnt' = [cnt EXCEPT !.sets = @ + 1,
                                    !.flag_sets = @ + (IF HasField(e.cls, e.f) /\ FieldOf(e.cls, e.f).w = 1 THEN 1 ELSE 0),
                                    !.wide_sets = @ + (IF HasField(e.cls, e.f) /\ FieldOf(e.cls, e.f).w > 16 THEN 1 ELSE 0)]
              /\ UNCHANGED << ep, live >>
         [] live /\ e.e = "obj.setData" ->
              /\ Report(BuildFails(e))
              /\ st' = [st EXCEPT !.raw = e.raw, !.get = e.get]
              /\ cnt' = [cnt EXCEPT !.builds = @ + 1,
                                    !.rebuilds = @ + (IF st.has /\ Len(st.raw) > Table[e.cls].size THEN 1 ELSE 0)]
              /\ UNCHANGED << ep, live >>
         [] live /\ e.e = "obj.rawhdr" ->
              (* the headers a packet renders: layout of spec/Frames.tla from the packet's own getters *)
              LET p == e.pkt IN
              /\ Report(IF e.cmp # FrameHdr(p.ver, p.dev, p.mt, p.st, p.seq)
                            \/ e.msg # p.ts \o IdBytes(p.mt, p.ifid, p.vid) \o << p.fl, p.pt >> \o BE16(p.len)
                         THEN {"C12"} ELSE {})
              /\ cnt' = [cnt EXCEPT !.rawhdrs = @ + 1]
              /\ UNCHANGED << ep, live, st >>
         [] OTHER ->
              /\ Report({"UNKNOWN-EVENT"}) /\ Unch

Done == l > Len(Log) /\ UNCHANGED vars
Next == Step \/ Done
Spec == Init /\ [][Next]_vars

Consumed == (l = Len(Log) + 1) =>
                /\ \A k \in DOMAIN cnt : PrintT(<< "COUNT", k, cnt[k] >>)
                /\ PrintT(<< "DONE", Len(Log) >>)
=============================================================================
