------------------------------ MODULE Encoder ------------------------------
(* The encoder as a state machine.  Persistent state: device id, stream id,  *)
(* sequence counter.  One encode call is a sequence of steps, one per        *)
(* message appended or frame emitted, over a per-call record                 *)
(*   [batch, ctx, i, off, cur, out, seq]                                     *)
(* i = next packet, off = bytes of packet i already emitted (segmentation),  *)
(* cur = the open frame (<< >> = none; it only ever holds unsegmented        *)
(* messages), out = closed frames.  No frame is opened before there is a     *)
(* message to put into it; every frame takes the next sequence counter.      *)
EXTENDS Frames

Fits(p, ctx) == MsgHdrSize + Len(p.pl) <= ctx.max - CmpHdrSize

Close(f, ctx) == IF Len(f) >= ctx.min THEN f ELSE f \o Zeros(ctx.min - Len(f))

EncInit(batch, ctx, seq) ==
    [batch |-> batch, ctx |-> ctx, i |-> 1, off |-> 0, cur |-> << >>, out |-> << >>, seq |-> seq]

EncDone(s) == s.i > Len(s.batch)

NextSeq(c) == (c + 1) % 65536

(* one step: AppendWhole | OpenFrameWhole | EmitSegmentFrame *)
EncStepKind(s) ==
    LET p == s.batch[s.i] IN
    IF Fits(p, s.ctx)
    THEN IF s.cur # << >> /\ At(s.cur, 4) = p.mt /\ Len(s.cur) + MsgHdrSize + Len(p.pl) <= s.ctx.max
         THEN "AppendWhole" ELSE "OpenFrameWhole"
    ELSE "EmitSegmentFrame"

EncStep(dev, stream, s) ==
    LET p       == s.batch[s.i]
        ctx     == s.ctx
        flushed == IF s.cur = << >> THEN s.out ELSE Append(s.out, Close(s.cur, ctx))
        nseq    == NextSeq(s.seq)
        kind    == EncStepKind(s)
    IN
    IF kind = "AppendWhole" THEN
        [s EXCEPT !.cur = @ \o MsgHdr(p, SegNone, Len(p.pl)) \o p.pl, !.i = @ + 1]
    ELSE IF kind = "OpenFrameWhole" THEN
        [s EXCEPT !.out = flushed, !.seq = nseq, !.i = @ + 1,
                  !.cur = FrameHdr(p.ver, dev, p.mt, stream, nseq) \o MsgHdr(p, SegNone, Len(p.pl)) \o p.pl]
    ELSE
        LET n    == Min(Len(p.pl) - s.off, ctx.max - CmpHdrSize - MsgHdrSize)
            last == s.off + n = Len(p.pl)
            seg  == IF s.off = 0 THEN SegFirst ELSE IF last THEN SegLast ELSE SegMid
            fr   == Close(FrameHdr(p.ver, dev, p.mt, stream, nseq) \o MsgHdr(p, seg, n) \o Slice(p.pl, s.off, n), ctx)
        IN [s EXCEPT !.out = Append(flushed, fr), !.seq = nseq, !.cur = << >>,
                     !.i = IF last THEN @ + 1 ELSE @, !.off = IF last THEN 0 ELSE @ + n]

EncFinish(s) == IF s.cur = << >> THEN s.out ELSE Append(s.out, Close(s.cur, s.ctx))

RECURSIVE EncRun(_, _, _)
EncRun(dev, stream, s) == IF EncDone(s) THEN s ELSE EncRun(dev, stream, EncStep(dev, stream, s))

(* a whole call, step by step: frames and the counter afterwards *)
EncodeStepwise(dev, stream, seq, batch, ctx) ==
    LET s == EncRun(dev, stream, EncInit(batch, ctx, seq)) IN
    [frames |-> EncFinish(s), seq |-> s.seq]

(* ---- closed form of the EmitSegmentFrame run of one packet ----------------- *)
(* All segment frames of a packet that does not fit, as one expression.  The  *)
(* judge uses it so that the depth of TLC's recursion is the number of        *)
(* packets, not of frames; MC_Enc checks that it equals the stepwise result.  *)
SegCap(ctx) == ctx.max - CmpHdrSize - MsgHdrSize
NSeg(p, ctx) == (Len(p.pl) + SegCap(ctx) - 1) \div SegCap(ctx)

SegFrames(dev, stream, seq0, p, ctx) ==
    LET cap == SegCap(ctx)  nseg == NSeg(p, ctx) IN
    [k \in 1..nseg |->
        LET off == (k - 1) * cap
            n   == Min(cap, Len(p.pl) - off)
            seg == IF k = 1 THEN SegFirst ELSE IF k = nseg THEN SegLast ELSE SegMid
        IN Close(FrameHdr(p.ver, dev, p.mt, stream, (seq0 + k) % 65536) \o MsgHdr(p, seg, n) \o Slice(p.pl, off, n), ctx)]

EncPacket(dev, stream, s) ==
    LET p == s.batch[s.i] IN
    IF Fits(p, s.ctx) THEN EncStep(dev, stream, s)
    ELSE LET flushed == IF s.cur = << >> THEN s.out ELSE Append(s.out, Close(s.cur, s.ctx)) IN
         [s EXCEPT !.out = flushed \o SegFrames(dev, stream, s.seq, p, s.ctx),
                   !.seq = (s.seq + NSeg(p, s.ctx)) % 65536, !.cur = << >>, !.i = @ + 1, !.off = 0]

RECURSIVE EncRunP(_, _, _)
EncRunP(dev, stream, s) == IF EncDone(s) THEN s ELSE EncRunP(dev, stream, EncPacket(dev, stream, s))

Encode(dev, stream, seq, batch, ctx) ==
    LET s == EncRunP(dev, stream, EncInit(batch, ctx, seq)) IN
    [frames |-> EncFinish(s), seq |-> s.seq]

=============================================================================
