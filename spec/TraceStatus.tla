----------------------------- MODULE TraceStatus -----------------------------
(* Judge for recorded executions of the real Status object (C16).  The        *)
(* specification state is the abstract latest-message map; after every        *)
(* operation the observed entries (as a map: entry order is not prescribed)   *)
(* must equal it, no id may appear twice, and every lookup must return the    *)
(* position of the entry with that id in the observed order, or the count.    *)
EXTENDS Status, TLC, Json, IOUtils

Log == ndJsonDeserialize(IOEnv.TRACE)

VARIABLES l, ep, live, map, slots, cnt
vars == << l, ep, live, map, slots, cnt >>

Cnt0 == [ops |-> 0, updates |-> 0, ignored_updates |-> 0, replaced |-> 0, removals |-> 0, effective_removals |-> 0, max_devices |-> 0]
Init == l = 1 /\ ep = "" /\ live = FALSE /\ map = EmptyMap /\ slots = << >> /\ cnt = Cnt0

Has(r, f) == f \in DOMAIN r
Report(fails) == IF fails = {} THEN TRUE ELSE PrintT(<< "FAIL", l, ep, fails >>)

After(e) ==
    CASE e.e = "st.new" -> EmptyMap
      [] e.e = "st.clear" -> EmptyMap
      [] e.e = "st.update" -> MapUpdate(map, e.pkt)
      [] e.e = "st.removeDev" -> MapRemoveDev(map, e.dev)
      [] e.e = "st.removeIf" -> MapRemoveIf(map, e.dev, e.ifid)
      [] e.e = "st.restore" -> slots[e.slot]
      [] e.e = "st.adopt" -> VecAsMap(ObsVec(e))     \* a tracker met in the middle of its life (suite recorder): start from what is observed

OpFails(e) ==
    LET v == ObsVec(e)  m2 == After(e) IN
    IF ~VecWellFormed(v) \/ VecAsMap(v) # m2 \/ ~LookupsOK(e) THEN {"C16"} ELSE {}

Ops == {"st.new", "st.clear", "st.update", "st.removeDev", "st.removeIf", "st.restore", "st.adopt"}

Step ==
    /\ l <= Len(Log)
    /\ l' = l + 1
    /\ LET e == Log[l] IN
       CASE e.e = "begin" ->
              /\ ep' = e.id /\ live' = TRUE /\ map' = EmptyMap /\ slots' = [k \in 0..64 |-> EmptyMap] /\ UNCHANGED cnt
         [] e.e = "crash" ->
              /\ Report(IF live THEN {"CRASH", "C16"} ELSE {})
              /\ live' = FALSE /\ UNCHANGED << ep, map, slots, cnt >>
         [] e.e \notin {"begin", "crash"} /\ ~live -> UNCHANGED << ep, live, map, slots, cnt >>
         [] live /\ e.e \in Ops ->
              LET fails == OpFails(e)
                  m2 == After(e) IN
              /\ Report(fails)
              /\ map' = IF fails = {} THEN m2 ELSE VecAsMap(ObsVec(e))        \* resynchronise on the observation
              /\ slots' = IF Has(e, "save") THEN [slots EXCEPT ![e.save] = map'] ELSE slots
              /\ cnt' = [cnt EXCEPT !.ops = @ + 1,
                                    !.updates = @ + (IF e.e = "st.update" THEN 1 ELSE 0),
                                    !.ignored_updates = @ + (IF e.e = "st.update" /\ m2 = map THEN 1 ELSE 0),
                                    !.replaced = @ + (IF e.e = "st.update" /\ m2 # map /\ DOMAIN m2 = DOMAIN map THEN 1 ELSE 0),
                                    !.removals = @ + (IF e.e \in {"st.removeDev", "st.removeIf"} THEN 1 ELSE 0),
                                    !.effective_removals = @ + (IF e.e \in {"st.removeDev", "st.removeIf"} /\ m2 # map THEN 1 ELSE 0),
                                    !.max_devices = IF Cardinality(DOMAIN m2) > @ THEN Cardinality(DOMAIN m2) ELSE @]
              /\ UNCHANGED << ep, live >>
         [] OTHER -> Report({"UNKNOWN-EVENT"}) /\ UNCHANGED << ep, live, map, slots, cnt >>

Done == l > Len(Log) /\ UNCHANGED vars
Next == Step \/ Done
Spec == Init /\ [][Next]_vars
Consumed == (l = Len(Log) + 1) =>
                /\ \A k \in DOMAIN cnt : PrintT(<< "COUNT", k, cnt[k] >>)
                /\ PrintT(<< "DONE", Len(Log) >>)
=============================================================================
