------------------------------ MODULE Status ------------------------------
(* The status tracker.  Two views:                                            *)
(*  - abstract: a map  device id -> [pkt, ifs: interface id -> pkt]  holding  *)
(*    for every device that has sent a capture-module status message since it *)
(*    was last removed or cleared its latest such packet, and under it the    *)
(*    latest interface status packet per interface id seen since then;        *)
(*  - operational: the vectors the implementation keeps (find, update in      *)
(*    place, push back, swap with last and pop), whose order decides the      *)
(*    indices the lookups return.                                             *)
(* A packet is classified by its payload type only (message type 3, payload   *)
(* type 1 = capture-module status, 2 = interface status whose first four      *)
(* payload bytes are the interface id).                                        *)
EXTENDS Bits

IsCm(p) == p.mt = 3 /\ p.pt = 1
IsIf(p) == p.mt = 3 /\ p.pt = 2
IfIdOf(p) == SubSeq(p.pl, 1, 4)

EmptyMap == [d \in {} |-> 0]

(* ---- abstract map ----------------------------------------------------------- *)
MapUpdate(m, p) ==
    LET d == p.dev IN
    IF IsCm(p) THEN
        IF d \in DOMAIN m THEN [m EXCEPT ![d].pkt = p]
        ELSE [x \in DOMAIN m \cup {d} |-> IF x = d THEN [pkt |-> p, ifs |-> EmptyMap] ELSE m[x]]
    ELSE IF IsIf(p) /\ d \in DOMAIN m THEN
        LET i == IfIdOf(p)  old == m[d].ifs IN
        [m EXCEPT ![d].ifs = [y \in DOMAIN old \cup {i} |-> IF y = i THEN p ELSE old[y]]]
    ELSE m

MapRemoveDev(m, d) == [x \in DOMAIN m \ {d} |-> m[x]]
MapRemoveIf(m, d, i) ==
    IF d \in DOMAIN m THEN [m EXCEPT ![d].ifs = [y \in DOMAIN m[d].ifs \ {i} |-> m[d].ifs[y]]] ELSE m

(* ---- operational vectors ------------------------------------------------------ *)
(* devices: sequence of [dev, pkt, ifs: sequence of [id, pkt]] *)
IndexOf(s, Test(_)) == IF \E k \in 1..Len(s) : Test(s[k]) THEN CHOOSE k \in 1..Len(s) : Test(s[k]) /\ \A j \in 1..(k - 1) : ~Test(s[j])
                       ELSE Len(s) + 1
SwapPop(s, k) == SubSeq([s EXCEPT ![k] = s[Len(s)]], 1, Len(s) - 1)

VecUpdate(v, p) ==
    LET k == IndexOf(v, LAMBDA e : e.dev = p.dev) IN
    IF k <= Len(v) THEN
        IF IsIf(p) THEN
            LET ifs == v[k].ifs
                j   == IndexOf(ifs, LAMBDA e : e.id = IfIdOf(p)) IN
            IF j <= Len(ifs) THEN [v EXCEPT ![k].ifs[j].pkt = p]
            ELSE [v EXCEPT ![k].ifs = Append(ifs, [id |-> IfIdOf(p), pkt |-> p])]
        ELSE IF IsCm(p) THEN [v EXCEPT ![k].pkt = p]
        ELSE v
    ELSE IF IsCm(p) THEN Append(v, [dev |-> p.dev, pkt |-> p, ifs |-> << >>])
    ELSE v

VecRemoveDev(v, d) ==
    LET k == IndexOf(v, LAMBDA e : e.dev = d) IN IF k <= Len(v) THEN SwapPop(v, k) ELSE v

VecRemoveIf(v, d, i) ==
    LET k == IndexOf(v, LAMBDA e : e.dev = d) IN
    IF k > Len(v) THEN v
    ELSE LET j == IndexOf(v[k].ifs, LAMBDA e : e.id = i) IN
         IF j <= Len(v[k].ifs) THEN [v EXCEPT ![k].ifs = SwapPop(@, j)] ELSE v

(* ---- the vectors as a map (refinement mapping) -------------------------------- *)
NoDup(s, Key(_)) == \A j, k \in 1..Len(s) : j # k => Key(s[j]) # Key(s[k])
VecWellFormed(v) == NoDup(v, LAMBDA e : e.dev) /\ \A k \in 1..Len(v) : NoDup(v[k].ifs, LAMBDA e : e.id)

IfsAsMap(ifs) == [i \in {ifs[j].id : j \in 1..Len(ifs)} |-> (CHOOSE j \in 1..Len(ifs) : ifs[j].id = i)]
VecAsMap(v) ==
    [d \in {v[k].dev : k \in 1..Len(v)} |->
        LET k == CHOOSE k \in 1..Len(v) : v[k].dev = d IN
        [pkt |-> v[k].pkt,
         ifs |-> [i \in {v[k].ifs[j].id : j \in 1..Len(v[k].ifs)} |->
                    v[k].ifs[CHOOSE j \in 1..Len(v[k].ifs) : v[k].ifs[j].id = i].pkt]]]

(* lookups: 0-based index of the entry with that id, or the element count *)
LookupDev(v, d) == IndexOf(v, LAMBDA e : e.dev = d) - 1
LookupIf(ifs, i) == IndexOf(ifs, LAMBDA e : e.id = i) - 1

(* ---- observations of the real object (judges) --------------------------------- *)
(* the observed vectors in the shape of Status!vec *)
ObsVec(e) == [k \in 1..Len(e.snap) |->
                 [dev |-> e.snap[k].dev, pkt |-> e.snap[k].pkt,
                  ifs |-> [j \in 1..Len(e.snap[k].ifs) |-> [id |-> e.snap[k].ifs[j].id, pkt |-> e.snap[k].ifs[j].pkt]]]]

LookupsOK(e) ==
    LET v == ObsVec(e) IN
    /\ e.count = Len(v)
    /\ ("ncok" \in DOMAIN e => e.ncok)         \* the non-const accessors return the same objects as the const ones
    /\ \A x \in 1..Len(e.devlookup) : e.devlookup[x].idx = LookupDev(v, e.devlookup[x].dev)
    /\ \A k \in 1..Len(v) : \A x \in 1..Len(e.snap[k].iflookup) :
           e.snap[k].iflookup[x].idx = LookupIf(v[k].ifs, e.snap[k].iflookup[x].id)
=============================================================================
