------------------------------- MODULE Tecmp -------------------------------
(* Conversion of TECMP messages to ASAM CMP packets (C15).                    *)
(* TECMP header (28 bytes): 0 zero (high byte of the device id; routes the    *)
(* buffer here) | 1 device id | 2..3 counter | 4 version | 5 message type |   *)
(* 6..7 data type | 8..9 reserved | 10..11 device flags | 12..15 interface id *)
(* | 16..23 timestamp | 24..25 payload length | 26..27 data flags.            *)
(* Supported: message type 1 capture-module status, 2 bus status, 3 data with *)
(* data type 2 CAN, 3 CAN-FD, 4 LIN.  Anything else, or inner lengths that do *)
(* not fit the buffer, yields no packet.                                      *)
EXTENDS Payloads

TecmpHdrSize == 28

(* decimal digits (ASCII) of a big-endian byte tuple, without 32 bit overflow: long division by 10 *)
RECURSIVE DivStep(_, _, _, _)
DivStep(bs, k, rem, acc) ==          \* divide the base-256 number bs by 10: quotient digits in acc, remainder returned
    IF k > Len(bs) THEN [q |-> acc, r |-> rem]
    ELSE LET cur == rem * 256 + bs[k] IN DivStep(bs, k + 1, cur % 10, Append(acc, cur \div 10))
IsZeroBytes(bs) == \A k \in 1..Len(bs) : bs[k] = 0
RECURSIVE DecDigits(_, _)
DecDigits(bs, acc) ==
    IF IsZeroBytes(bs) THEN (IF acc = << >> THEN << 48 >> ELSE acc)
    ELSE LET d == DivStep(bs, 1, 0, << >>) IN DecDigits(d.q, << 48 + d.r >> \o acc)
Decimal(bs) == DecDigits(bs, << >>)

VersionString(parts) ==              \* "v" major "." minor [ "." patch ]
    << 118 >> \o Decimal(<< parts[1] >>) \o
    FlattenSeq([k \in 1..(Len(parts) - 1) |-> << 46 >> \o Decimal(<< parts[k + 1] >>)])

Pkt(b, mt, pt, ifid, pl) ==
    [dev |-> At(b, 1), st |-> 0, ver |-> 1, mt |-> mt, pt |-> pt, ts |-> Slice(b, 16, 8), ifid |-> ifid, vid |-> 0,
     fl |-> 0, seq |-> 0, seg |-> 0, len |-> Len(pl), pl |-> pl, valid |-> TRUE]

(* CAN / CAN-FD data: arbitration id (4), data length (1), data, optional CRC bytes *)
CanPackets(b, p) ==
    IF Len(p) < 5 \/ 5 + At(p, 4) > Len(p) THEN << >>
    ELSE LET n   == At(p, 4)
             fd  == n > 8
             c   == IF Len(p) >= 5 + n + 3 THEN Slice(p, 5 + n, 3) ELSE << 0, 0, 0 >>
             crc == IF fd THEN << 0, c[3], c[2], c[1] >> ELSE << 0, 0, c[2], c[1] >>
             pl  == << 0, 0, 0, 0 >> \o Slice(p, 0, 4) \o crc \o << 0, 0, DlcCode(n), n >> \o Slice(p, 5, n)
         IN << Pkt(b, MtData, IF fd THEN 2 ELSE 1, Slice(b, 12, 4), pl) >>

(* LIN data: protected id (1), data length (1), data, optional checksum *)
LinPackets(b, p) ==
    IF Len(p) < 2 \/ 2 + At(p, 1) > Len(p) THEN << >>
    ELSE LET n  == At(p, 1)
             cs == IF Len(p) > 2 + n THEN At(p, 2 + n) ELSE 0
             pl == << 0, 0, 0, 0, At(p, 0) % 64, 0, cs, n >> \o Slice(p, 2, n)
         IN << Pkt(b, MtData, 3, Slice(b, 12, 4), pl) >>

(* capture-module status: 12 generic bytes (serial number at 8..11) and the vendor data with the software     *)
(* version at 13..15 and the hardware version at 16..17; the whole 36 byte structure must be present          *)
CmPackets(b, p) ==
    IF Len(p) < 36 THEN << >>
    ELSE LET pl == Zeros(26) \o StrField(<< >>) \o StrField(Decimal(Slice(p, 8, 4)))
                     \o StrField(VersionString(<< At(p, 16), At(p, 17) >>))
                     \o StrField(VersionString(<< At(p, 13), At(p, 14), At(p, 15) >>)) \o << 0, 0 >>
         IN << Pkt(b, MtStatus, 1, Slice(b, 12, 4), pl) >>

(* bus status: 12 generic bytes, then one 12 byte entry per interface: id, messages total, errors total *)
IfPayload(ent) == Slice(ent, 0, 4) \o Slice(ent, 4, 4) \o Zeros(12) \o Slice(ent, 8, 4) \o Zeros(16)
BusPackets(b, p) ==
    IF Len(p) < 12 THEN << >>
    ELSE [k \in 1..((Len(p) - 12) \div 12) |->
            LET ent == Slice(p, 12 * k, 12) IN Pkt(b, MtStatus, 2, Slice(ent, 0, 4), IfPayload(ent))]

TecmpDecode(b) ==
    IF Len(b) < TecmpHdrSize THEN << >>
    ELSE LET plen == U16(b, 24)  mt == At(b, 5)  dt == U16(b, 6) IN
         IF plen = 0 \/ Len(b) < TecmpHdrSize + plen \/ mt = 255 \/ dt = 65280 THEN << >>
         ELSE LET p == Slice(b, TecmpHdrSize, Len(b) - TecmpHdrSize) IN
              CASE mt = 1 -> CmPackets(b, p)
                [] mt = 2 -> BusPackets(b, p)
                [] mt = 3 /\ dt \in {2, 3} -> CanPackets(b, p)
                [] mt = 3 /\ dt = 4 -> LinPackets(b, p)
                [] OTHER -> << >>

(* ---- C15: the fields the property names ---------------------------------------- *)
(* observed packet d against specified packet s *)
Low29(w) == << w[1] % 32, w[2], w[3], w[4] >>
ConvOK(d, s) ==
    /\ d.dev = s.dev /\ d.ts = s.ts /\ d.ifid = s.ifid /\ d.mt = s.mt /\ d.valid
    /\ IF s.pt \in {1, 2} THEN                                   \* CAN / CAN-FD (the kind itself is not prescribed)
           /\ d.pt \in {1, 2} /\ Len(d.pl) = Len(s.pl)
           /\ Low29(Slice(d.pl, 4, 4)) = Low29(Slice(s.pl, 4, 4))
           /\ At(d.pl, 15) = At(s.pl, 15) /\ Slice(d.pl, 16, Len(d.pl) - 16) = Slice(s.pl, 16, Len(s.pl) - 16)
       ELSE IF s.pt = 3 /\ s.mt = MtData THEN                    \* LIN: id, checksum, length, data
           /\ d.pt = 3 /\ Len(d.pl) = Len(s.pl)
           /\ At(d.pl, 4) % 64 = At(s.pl, 4) /\ At(d.pl, 6) = At(s.pl, 6) /\ At(d.pl, 7) = At(s.pl, 7)
           /\ Slice(d.pl, 8, Len(d.pl) - 8) = Slice(s.pl, 8, Len(s.pl) - 8)
       ELSE IF s.pt = 1 THEN                                      \* capture-module status: serial number and version strings
           /\ d.pt = 1 /\ CmFields(d.pl).ok /\ CmFields(s.pl).ok
           /\ \A x \in 2..4 : CString(d.pl, CmFields(d.pl).fields[x]) = CString(s.pl, CmFields(s.pl).fields[x])
       ELSE /\ d.pt = s.pt /\ Len(d.pl) >= 36                    \* interface status: interface id and the two counters
            /\ Slice(d.pl, 0, 4) = Slice(s.pl, 0, 4) /\ Slice(d.pl, 4, 4) = Slice(s.pl, 4, 4)
            /\ Slice(d.pl, 20, 4) = Slice(s.pl, 20, 4)

TecmpOK(b, out) ==
    LET want == TecmpDecode(b) IN
    /\ Len(out) = Len(want)
    /\ \A x \in 1..Len(want) : ConvOK(out[x], want[x])
=============================================================================
