------------------------------ MODULE EncProps ------------------------------
(* The encoder-side properties (C01, C07, C08, C09, C10) as operators over   *)
(* inputs and observed outputs.  Each is applied to the frames the           *)
(* specification produces (MC configurations) and to the frames the          *)
(* implementation produced (trace configurations): the same formula.         *)
EXTENDS Encoder

(* ---------------- C07: frames well-formed, within bounds ----------------- *)
FrameOK(f, ctx) ==
    /\ Len(f) >= CmpHdrSize + MsgHdrSize
    /\ IsBytes(f)
    /\ LET w == Walk(f) IN
       /\ Len(w.msgs) >= 1
       /\ Len(f) = Max(w.end, ctx.min)
       /\ Len(f) <= ctx.max
       /\ Len(f) >= ctx.min
       /\ AllZeroFrom(f, w.end)

FramePayloads(f) == LET w == Walk(f).msgs IN FlattenSeq([j \in 1..Len(w) |-> MsgPayload(f, w[j])])
AllPayloadBytes(frames) == FlattenSeq([k \in 1..Len(frames) |-> FramePayloads(frames[k])])
BatchBytes(batch) == FlattenSeq([x \in 1..Len(batch) |-> batch[x].pl])

FramesWellFormed(batch, ctx, frames) ==
    /\ (batch = << >> => frames = << >>)
    /\ \A k \in 1..Len(frames) : FrameOK(frames[k], ctx)
    /\ AllPayloadBytes(frames) = BatchBytes(batch)

(* ---------------- C08: segmentation and aggregation rules ---------------- *)
FlatMsgs(frames) ==
    FlattenSeq([k \in 1..Len(frames) |->
        LET w == Walk(frames[k]).msgs IN
        [j \in 1..Len(w) |-> [fr |-> k, nmsgs |-> Len(w), seg |-> SegOf(w[j].fl), len |-> w[j].len,
                               o |-> w[j].o, hmt |-> At(frames[k], 4), flen |-> Len(frames[k])]]])

(* group the flat message list into packets: an unsegmented message, or      *)
(* first, intermediary..., last                                              *)
RECURSIVE GroupMsgs(_, _, _, _)
GroupMsgs(ms, x, open, acc) ==
    IF x > Len(ms) THEN [ok |-> open = << >>, groups |-> acc]
    ELSE LET m == ms[x] IN
         IF m.seg = SegNone THEN
            IF open # << >> THEN [ok |-> FALSE, groups |-> acc]
            ELSE GroupMsgs(ms, x + 1, << >>, Append(acc, << m >>))
         ELSE IF m.seg = SegFirst THEN
            IF open # << >> THEN [ok |-> FALSE, groups |-> acc]
            ELSE GroupMsgs(ms, x + 1, << m >>, acc)
         ELSE IF open = << >> THEN [ok |-> FALSE, groups |-> acc]
         ELSE IF m.seg = SegMid THEN GroupMsgs(ms, x + 1, Append(open, m), acc)
         ELSE GroupMsgs(ms, x + 1, << >>, Append(acc, Append(open, m)))

Groups(frames) == GroupMsgs(FlatMsgs(frames), 1, << >>, << >>)

GroupLen(grp) == SumSeq([y \in 1..Len(grp) |-> grp[y].len])
IsSegmented(grp) == Len(grp) > 1 \/ grp[1].seg # SegNone

SegRules(batch, ctx, frames) ==
    LET g == Groups(frames) IN
    /\ g.ok
    /\ Len(g.groups) = Len(batch)
    /\ \A x \in 1..Len(batch) :
         LET grp == g.groups[x]  p == batch[x] IN
         /\ GroupLen(grp) = Len(p.pl)                         \* batch order kept, nothing lost
         /\ IsSegmented(grp) <=> ~Fits(p, ctx)                \* split only when it cannot fit an empty frame
         /\ \A y \in 1..Len(grp) : grp[y].hmt = p.mt          \* frame header announces the message type
         /\ IsSegmented(grp) =>
              /\ Len(grp) >= 2
              /\ \A y \in 1..Len(grp) : grp[y].nmsgs = 1                              \* alone in its frame
              /\ \A y \in 1..(Len(grp) - 1) : grp[y + 1].fr = grp[y].fr + 1            \* consecutive frames
              /\ \A y \in 1..(Len(grp) - 1) : grp[y].flen = ctx.max                    \* all but the last fill the frame
    /\ \A x \in 1..(Len(batch) - 1) :                                              \* aggregation
         LET a == g.groups[x]  c == g.groups[x + 1] IN
         (~IsSegmented(a) /\ ~IsSegmented(c)) =>
            ((a[1].fr = c[1].fr) <=>
               (batch[x].mt = batch[x + 1].mt /\ a[1].o + 16 + a[1].len + 16 + c[1].len <= ctx.max))

(* ---------------- C09: counters and identity ----------------------------- *)
(* last: counter of the previously emitted frame (0 after set id / restart)  *)
CounterRule(last, dev, stream, batch, frames, obsSeq, obsDev, obsStream) ==
    /\ \A k \in 1..Len(frames) :
         /\ Len(frames[k]) >= 8
         /\ LET h == HdrOf(frames[k]) IN
            /\ h.seq = (last + k) % 65536
            /\ h.dev = dev /\ h.st = stream
            /\ batch # << >> => h.ver = batch[1].ver
    /\ LET g == Groups(frames) IN
       (g.ok /\ Len(g.groups) = Len(batch)) =>
           \A x \in 1..Len(batch) : \A y \in 1..Len(g.groups[x]) : g.groups[x][y].hmt = batch[x].mt
    /\ obsSeq = (last + Len(frames)) % 65536
    /\ obsDev = dev /\ obsStream = stream

(* ---------------- C10: independence from earlier calls ------------------- *)
SeqBlank(f) == [i \in 1..Len(f) |-> IF i \in {7, 8} THEN 0 ELSE f[i]]

SameUpToShift(frames, fresh) ==
    /\ Len(frames) = Len(fresh)
    /\ \A k \in 1..Len(frames) : Len(frames[k]) >= 8 /\ Len(fresh[k]) >= 8 /\ SeqBlank(frames[k]) = SeqBlank(fresh[k])
    /\ \A k \in 1..Len(frames) :
         (HdrOf(frames[k]).seq + 65536 - HdrOf(fresh[k]).seq) % 65536 =
         (HdrOf(frames[1]).seq + 65536 - HdrOf(fresh[1]).seq) % 65536

(* ---------------- C01: round trip ---------------------------------------- *)
(* batch element vs. decoded packet record (DecodedPkt of the Decoder spec or *)
(* a logged packet snapshot): the fields C01 names                            *)
SamePacket(p, d, dev, stream) ==
    /\ d.mt = p.mt /\ d.pt = p.pt
    /\ d.pl = p.pl /\ d.len = Len(p.pl)
    /\ d.ts = p.ts
    /\ (p.mt = MtData => d.ifid = p.ifid)
    /\ (p.mt \in {MtStatus, MtVendor} => d.vid = p.vid)
    /\ d.ver = p.ver
    /\ NoSegBits(d.fl) = NoSegBits(p.fl)
    /\ d.dev = dev /\ d.st = stream

RoundTripOK(batch, dev, stream, decoded) ==
    /\ Len(decoded) = Len(batch)
    /\ \A x \in 1..Len(batch) : SamePacket(batch[x], decoded[x], dev, stream)

(* domain of C01 *)
InC01Domain(batch, ctx) ==
    /\ batch # << >>
    /\ ctx.max >= 25 /\ ctx.min <= ctx.max
    /\ \A x \in 1..Len(batch) :
         LET p == batch[x] IN
         /\ Len(p.pl) >= 1 /\ Len(p.pl) <= 65535
         /\ p.mt # 0 /\ p.pt # 0 /\ p.ver >= 1 /\ p.ver = batch[1].ver
         /\ ~ErrInPayload(p.fl)
         /\ MustBeValid(Kind(p.mt, p.pt), p.pl)

InC07Domain(batch, ctx) ==
    /\ ctx.max >= 25 /\ ctx.min <= ctx.max
    /\ \A x \in 1..Len(batch) : Len(batch[x].pl) >= 1 /\ Len(batch[x].pl) <= 65535 /\ batch[x].ver = batch[1].ver

=============================================================================
