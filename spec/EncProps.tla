------------------------------ MODULE EncProps ------------------------------
(* The encoder-side properties (C01, C07, C08, C09, C10) as operators over   *)
(* inputs and observed outputs.  Each is applied to the frames the           *)
(* specification produces (MC configurations) and to the frames the          *)
(* implementation produced (trace configurations): the same formula.         *)
EXTENDS Encoder

(* ---------------- C07: frames well-formed, within bounds ----------------- *)
FrameOK(f, ctx) ==
    /\ Len(f) >= CmpHdrSize + MsgHdrSize
    /\ LET w == Walk(f) IN
       /\ Len(w.msgs) >= 1
       /\ Len(f) = Max(w.end, ctx.min)
       /\ Len(f) <= ctx.max
       /\ Len(f) >= ctx.min
       /\ AllZeroFrom(f, w.end)

FramePayloads(f) == LET w == Walk(f).msgs IN FlattenSeq([j \in 1..Len(w) |-> MsgPayload(f, w[j])])
AllPayloadBytes(frames) == FlattenSeq([k \in 1..Len(frames) |-> FramePayloads(frames[k])])
BatchBytes(batch) == FlattenSeq([x \in 1..Len(batch) |-> batch[x].pl])

FramesWellFormed(batch, ctx, frames) ==
    /\ (batch = << >> => frames = << >>)
    /\ \A k \in 1..Len(frames) : FrameOK(frames[k], ctx)
    /\ AllPayloadBytes(frames) = BatchBytes(batch)

(* ---------------- C08: segmentation and aggregation rules ---------------- *)
FlatMsgs(frames) ==
    FlattenSeq([k \in 1..Len(frames) |->
        LET w == Walk(frames[k]).msgs IN
        [j \in 1..Len(w) |-> [fr |-> k, nmsgs |-> Len(w), seg |-> SegOf(w[j].fl), len |-> w[j].len,
                               o |-> w[j].o, hmt |-> At(frames[k], 4), flen |-> Len(frames[k])]]])

(* group the flat message list into packets: an unsegmented message, or      *)
(* first, intermediary..., last.  Written without recursion over messages:    *)
(* the list is well-grouped when every message continues or starts a group    *)
(* legally; groups start at the messages flagged unsegmented or first.        *)
StartsGroup(m) == m.seg \in {SegNone, SegFirst}

WellGrouped(ms) ==
    /\ \A x \in 1..Len(ms) :
         IF StartsGroup(ms[x]) THEN x = 1 \/ ms[x - 1].seg \in {SegNone, SegLast}
         ELSE x > 1 /\ ms[x - 1].seg \in {SegFirst, SegMid}
    /\ ms # << >> => ms[Len(ms)].seg \in {SegNone, SegLast}

Groups(frames) ==
    LET ms  == FlatMsgs(frames)
        idx == [x \in 1..Len(ms) |-> x]
        st  == SelectSeq(idx, LAMBDA x : StartsGroup(ms[x]))
    IN [ok |-> WellGrouped(ms), ms |-> ms, starts |-> st, n |-> Len(st)]

GFirst(g, x) == g.starts[x]                                   \* index of the first message of group x
GLast(g, x)  == IF x < g.n THEN g.starts[x + 1] - 1 ELSE Len(g.ms)
GSize(g, x)  == GLast(g, x) - GFirst(g, x) + 1
GLen(g, x)   == LET lens == [y \in 1..Len(g.ms) |-> g.ms[y].len] IN SumRange(lens, GFirst(g, x), GLast(g, x))
GSegmented(g, x) == GSize(g, x) > 1 \/ g.ms[GFirst(g, x)].seg # SegNone

SegRules(batch, ctx, frames) ==
    LET g == Groups(frames) IN
    /\ g.ok
    /\ g.n = Len(batch)
    /\ \A x \in 1..Len(batch) :
         LET p == batch[x]  a == GFirst(g, x)  z == GLast(g, x) IN
         /\ GLen(g, x) = Len(p.pl)                                  \* batch order kept, nothing lost
         /\ GSegmented(g, x) <=> ~Fits(p, ctx)                      \* split only when it cannot fit an empty frame
         /\ \A y \in a..z : g.ms[y].hmt = p.mt                      \* frame header announces the message type
         /\ GSegmented(g, x) =>
              /\ z > a
              /\ \A y \in a..z : g.ms[y].nmsgs = 1                              \* alone in its frame
              /\ \A y \in a..(z - 1) : g.ms[y + 1].fr = g.ms[y].fr + 1           \* consecutive frames
              /\ \A y \in a..(z - 1) : g.ms[y].flen = ctx.max                    \* all but the last fill the frame
    /\ \A x \in 1..(Len(batch) - 1) :                                         \* aggregation
         (~GSegmented(g, x) /\ ~GSegmented(g, x + 1)) =>
            LET a == g.ms[GFirst(g, x)]  c == g.ms[GFirst(g, x + 1)] IN
            ((a.fr = c.fr) <=>
               (batch[x].mt = batch[x + 1].mt /\ a.o + 16 + a.len + 16 + c.len <= ctx.max))

(* ---------------- C09: counters and identity ----------------------------- *)
(* last: counter of the previously emitted frame (0 after set id / restart)  *)
CounterRule(last, dev, stream, batch, frames, obsSeq, obsDev, obsStream) ==
    /\ \A k \in 1..Len(frames) :
         /\ Len(frames[k]) >= 8
         /\ LET h == HdrOf(frames[k]) IN
            /\ h.seq = (last + k) % 65536
            /\ h.dev = dev /\ h.st = stream
            /\ batch # << >> => h.ver = batch[1].ver
    /\ LET g == Groups(frames) IN
       (g.ok /\ g.n = Len(batch)) =>
           \A x \in 1..Len(batch) : \A y \in GFirst(g, x)..GLast(g, x) : g.ms[y].hmt = batch[x].mt
    /\ obsSeq = (last + Len(frames)) % 65536
    /\ obsDev = dev /\ obsStream = stream

(* ---------------- C10: independence from earlier calls ------------------- *)
SeqBlank(f) == SubSeq(f, 1, 6) \o SubSeq(f, 9, Len(f))

SameUpToShift(frames, fresh) ==
    /\ Len(frames) = Len(fresh)
    /\ \A k \in 1..Len(frames) : Len(frames[k]) >= 8 /\ Len(fresh[k]) >= 8 /\ SeqBlank(frames[k]) = SeqBlank(fresh[k])
    /\ \A k \in 1..Len(frames) :
         (HdrOf(frames[k]).seq + 65536 - HdrOf(fresh[k]).seq) % 65536 =
         (HdrOf(frames[1]).seq + 65536 - HdrOf(fresh[1]).seq) % 65536

(* ---------------- C01: round trip ---------------------------------------- *)
(* batch element vs. decoded packet record (DecodedPkt of the Decoder spec or *)
(* a logged packet snapshot): the fields C01 names                            *)
SamePacket(p, d, dev, stream) ==
    /\ d.mt = p.mt /\ d.pt = p.pt
    /\ d.pl = p.pl /\ d.len = Len(p.pl)
    /\ d.ts = p.ts
    /\ (p.mt = MtData => d.ifid = p.ifid)
    /\ (p.mt \in {MtStatus, MtVendor} => d.vid = p.vid)
    /\ d.ver = p.ver
    /\ NoSegBits(d.fl) = NoSegBits(p.fl)
    /\ d.dev = dev /\ d.st = stream

RoundTripOK(batch, dev, stream, decoded) ==
    /\ Len(decoded) = Len(batch)
    /\ \A x \in 1..Len(batch) : SamePacket(batch[x], decoded[x], dev, stream)

(* domain of C01 *)
InC01Domain(batch, ctx) ==
    /\ batch # << >>
    /\ ctx.max >= 25 /\ ctx.min <= ctx.max
    /\ \A x \in 1..Len(batch) :
         LET p == batch[x] IN
         /\ Len(p.pl) >= 1 /\ Len(p.pl) <= 65535
         /\ p.mt # 0 /\ p.pt # 0 /\ p.ver >= 1 /\ p.ver = batch[1].ver
         /\ ~ErrInPayload(p.fl)
         /\ MustBeValid(Kind(p.mt, p.pt), p.pl)

InC07Domain(batch, ctx) ==
    /\ ctx.max >= 25 /\ ctx.min <= ctx.max
    /\ \A x \in 1..Len(batch) : Len(batch[x].pl) >= 1 /\ Len(batch[x].pl) <= 65535 /\ batch[x].ver = batch[1].ver

=============================================================================
