------------------------------ MODULE TraceSame ------------------------------
(* Judge for two recorded executions of the same workload that must be        *)
(* bit-identical:                                                             *)
(*   C19  every thread's workload run concurrently with the others (TRACE2)   *)
(*        against the same workload run alone (TRACE)                         *)
(*   C20  the same workload under two different heap fill patterns            *)
(* Both logs are consumed in lock step; an episode fails at its first event   *)
(* that differs (or at a crash event in either log).                          *)
EXTENDS Naturals, Sequences, FiniteSets, FiniteSetsExt, TLC, Json, IOUtils

LogA == ndJsonDeserialize(IOEnv.TRACE)
LogB == ndJsonDeserialize(IOEnv.TRACE2)
Prop == IOEnv.PROP

VARIABLES la, lb, ep, live, cnt
vars == << la, lb, ep, live, cnt >>
Init == la = 1 /\ lb = 1 /\ ep = "" /\ live = FALSE /\ cnt = [compared |-> 0, episodes |-> 0, bytes_events |-> 0]

Report(fails) == IF fails = {} THEN TRUE ELSE PrintT(<< "FAIL", la, ep, fails >>)

IsBegin(e) == e.e \in {"begin", "thread"}       \* episode start, or start of the section of one thread's log

(* skip the rest of a failed episode in one log: advance to its next begin *)
(* (no recursion over the log: TLC's recursion cost grows quadratically with its depth) *)
BeginsA == {i \in 1..Len(LogA) : IsBegin(LogA[i])}
BeginsB == {i \in 1..Len(LogB) : IsBegin(LogB[i])}
NextIn(S, k, n) == LET T == {i \in S : i >= k} IN IF T = {} THEN n + 1 ELSE Min(T)
NextA(k) == NextIn(BeginsA, k, Len(LogA))
NextB(k) == NextIn(BeginsB, k, Len(LogB))

Step ==
    /\ la <= Len(LogA) /\ lb <= Len(LogB)
    /\ LET a == LogA[la]  b == LogB[lb] IN
       IF IsBegin(a) /\ IsBegin(b) /\ a.id = b.id THEN
            /\ ep' = a.id /\ live' = TRUE /\ la' = la + 1 /\ lb' = lb + 1
            /\ cnt' = [cnt EXCEPT !.episodes = @ + 1]
       ELSE IF IsBegin(a) /\ IsBegin(b) THEN
            (* one log lost the rest of a thread's episodes (its process died): they count as failed; resynchronise *)
            /\ Report(IF a.e = "thread" /\ b.e = "thread" THEN {"UNKNOWN-EVENT"} ELSE {Prop})
            /\ ep' = IF a.e = "begin" THEN a.id ELSE b.id
            /\ live' = FALSE
            /\ la' = IF a.e = "begin" THEN NextA(la + 1) ELSE la
            /\ lb' = IF a.e = "begin" THEN lb ELSE NextB(lb + 1)
            /\ UNCHANGED cnt
       ELSE IF ~live \/ IsBegin(a) \/ IsBegin(b) \/ a.e = "crash" \/ b.e = "crash" \/ a # b THEN
            (* a difference, a crash, or one log shorter than the other inside this episode *)
            /\ Report(IF live THEN {Prop} \cup (IF a.e = "crash" \/ b.e = "crash" THEN {"CRASH"} ELSE {}) ELSE {})
            /\ live' = FALSE
            /\ la' = NextA(IF IsBegin(a) THEN la ELSE la + 1)
            /\ lb' = NextB(IF IsBegin(b) THEN lb ELSE lb + 1)
            /\ UNCHANGED << ep, cnt >>
       ELSE /\ la' = la + 1 /\ lb' = lb + 1
            /\ cnt' = [cnt EXCEPT !.compared = @ + 1]
            /\ UNCHANGED << ep, live >>

(* one log ended inside an episode the other continues *)
Ragged ==
    /\ (la > Len(LogA)) # (lb > Len(LogB))
    /\ Report(IF live \/ (la <= Len(LogA) /\ IsBegin(LogA[la])) \/ (lb <= Len(LogB) /\ IsBegin(LogB[lb])) THEN {Prop} ELSE {})
    /\ la' = Len(LogA) + 1 /\ lb' = Len(LogB) + 1 /\ live' = FALSE /\ UNCHANGED << ep, cnt >>

Done == la > Len(LogA) /\ lb > Len(LogB) /\ UNCHANGED vars
Next == Step \/ Ragged \/ Done
Spec == Init /\ [][Next]_vars

Consumed == (la = Len(LogA) + 1 /\ lb = Len(LogB) + 1) =>
                /\ \A k \in DOMAIN cnt : PrintT(<< "COUNT", k, cnt[k] >>)
                /\ PrintT(<< "DONE", Len(LogA) >>)
=============================================================================
