------------------------------ MODULE MC_Views ------------------------------
(* C03 at design level.  The validators and the view computations depend only *)
(* on the size of the buffer and a handful of fields, so the abstract domain  *)
(* is finite: every size from 0 to header + 8 (and one large size), every     *)
(* inner length field at 0, 1, just below / at / just above what is available *)
(* and at its maximum, error-flag / enumerated-field classes.  TLC checks     *)
(* that the specified validity rule implies in-bounds views (the rule is a    *)
(* sound target) and dumps every buffer as a case for the real validators     *)
(* and accessors.                                                             *)
EXTENDS Payloads, TLC, Json

CONSTANTS DumpCases
VARIABLES pc, kind, buf, hist
vars == << pc, kind, buf, hist >>
View == << pc, kind, buf >>

Kinds == {"can", "canfd", "lin", "eth", "analog", "cm", "if"}
Fillb(n, v) == [j \in 1..n |-> (v + 3 * j) % 256]

(* the kinds with 16 bit inner lengths also at sizes whose lengths need the high byte *)
Sizes(k) == (0..(HeaderSize(k) + 8)) \cup {HeaderSize(k) + 40} \cup (IF k \in {"eth", "cm", "if"} THEN {HeaderSize(k) + 300, HeaderSize(k) + 600} ELSE {})
Lens8(avail)  == {x \in {0, 1, avail - 1, avail, avail + 1, 254, 255} : x >= 0 /\ x <= 255}
Lens16(avail) == {x \in {0, 1, avail - 1, avail, avail + 1, 65534, 65535} : x >= 0 /\ x <= 65535}

SetAt(b, o, v) == IF o + 1 <= Len(b) THEN [b EXCEPT ![o + 1] = v] ELSE b
Set16(b, o, v) == SetAt(SetAt(b, o, v \div 256), o + 1, v % 256)

(* buffers of kind k and size n *)
Buffers(k, n) ==
    LET base == Fillb(n, 17)
        avail == IF n >= HeaderSize(k) THEN n - HeaderSize(k) ELSE 0
    IN
    CASE k \in {"can", "canfd"} ->
            {Set16(Set16(SetAt(base, 15, dl), 0, fl), 12, ep) : dl \in Lens8(avail), fl \in {0, 1, 512, 1024, 15360}, ep \in {0, 1}}
      [] k = "lin" -> {Set16(SetAt(base, 7, dl), 0, fl) : dl \in Lens8(avail), fl \in {0, 1, 256}}
      [] k = "eth" -> {Set16(Set16(base, 4, dl), 0, fl) : dl \in Lens16(avail), fl \in {0, 1, 4, 32, 192}}
      [] k = "analog" -> {Set16(base, 0, dt) : dt \in {0, 1, 2, 3, 65532}}
      [] k = "cm" ->
            (* the five length fields: all but one fixed small, one swept *)
            LET b0 == Set16(Set16(Set16(Set16(Set16(base, 26, 0), 28, 0), 30, 0), 32, 0), 34, 0) IN
            {base} \cup {Set16(b0, 26 + 2 * j, v) : j \in 0..4, v \in Lens16(IF avail >= 10 THEN avail - 10 ELSE 0)}
                   \cup {Set16(Set16(b0, 26, 2), 30, v) : v \in Lens16(IF avail >= 12 THEN avail - 12 ELSE 0)}
      [] k = "if" ->
            LET b0 == SetAt(base, 29, 1) IN
            {SetAt(Set16(Set16(b0, 36, c), 38 + c + (c % 2), v), 29, s) :
                 c \in {x \in Lens16(IF avail >= 4 THEN avail - 4 ELSE 0) : x < 700},
                 v \in Lens16(IF avail >= 4 THEN avail - 4 ELSE 0), s \in {0, 2, 3}}
            \cup {Set16(b0, 36, c) : c \in {65534, 65535}}
            (* a count at the top of its range in front of bytes that read as a small vendor length: harmless-looking *)
            (* if the count (or its even padding) wraps in 16 bits (round6c-1)                                        *)
            \cup {Set16(Set16(b0, 36, c), 38, v) : c \in {65534, 65535}, v \in {0, 1, 2}}

Init == pc = "pick" /\ kind \in Kinds /\ buf = << >> /\ hist = << >>
Next ==
    /\ pc = "pick"
    /\ \E n \in Sizes(kind) : \E b \in Buffers(kind, n) :
          /\ pc' = "done" /\ buf' = b /\ UNCHANGED kind
          /\ hist' = << [op |-> "valid", kind |-> kind, bytes |-> b] >>
Spec == Init /\ [][Next]_vars

InvC03 == (pc = "done" /\ ValidPayload(kind, buf)) => InBounds(kind, buf)
(* the abstract domain is not vacuous: checked by the driver from the coverage line *)
DumpEdges == (DumpCases /\ pc' = "done") =>
                PrintT(<< "CASE", ToJson(hist') >>)
=============================================================================
