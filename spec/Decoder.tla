------------------------------ MODULE Decoder ------------------------------
(* The decoder as a state machine.  State: pending, a function from the set  *)
(* of endpoints << device id, stream id >> that have a segmented message in  *)
(* progress to records                                                       *)
(*   [hdr (16 bytes, header of the first segment), buf (payload bytes so     *)
(*    far), seg, ver, mt, cur (counter of the last accepted segment)].       *)
(* One decode call walks the messages of one frame; each message is one of   *)
(* the named steps below.  Nothing after a segment is parsed; only the       *)
(* entry of the frame's own endpoint is ever read or written.                *)
EXTENDS Frames

CONSTANT TecmpDecode(_)          \* frames starting with 0x00 go to the TECMP converter

NoPend == [open |-> FALSE]

(* packet as the decoder reports it.  A typed payload that fails validation  *)
(* is reported as an invalid payload: type 0, zero-filled bytes, length kept *)
DecodedPkt(h, mh, pl) ==        \* h: parsed frame header, mh: 16 message header bytes
    LET pt   == At(mh, 13)
        kind == Kind(h.mt, pt)
        bad  == kind \in TypedKinds /\ ~ValidPayload(kind, pl)
    IN [dev |-> h.dev, st |-> h.st, ver |-> h.ver,
        mt  |-> IF bad THEN 0 ELSE h.mt,
        pt  |-> IF bad THEN 0 ELSE pt,
        ts  |-> Slice(mh, 0, 8),
        ifid |-> IF h.mt = MtData THEN Slice(mh, 8, 4) ELSE << 0, 0, 0, 0 >>,
        vid |-> IF h.mt \in {MtStatus, MtVendor} THEN U16(mh, 10) ELSE 0,
        fl  |-> At(mh, 12), seq |-> 0, seg |-> 0,
        len |-> Len(pl),
        pl  |-> IF bad THEN Zeros(Len(pl)) ELSE pl,
        valid |-> ~bad /\ h.mt # 0 /\ pt # 0]

MsgValid(b, o) ==
    /\ MsgComplete(b, o)
    /\ ~ErrInPayload(At(b, o + 12))
    /\ At(b, o + 13) # 0

NextSeqD(c) == (c + 1) % 65536

(* step names, for coverage and for the spec <-> code correspondence *)
StepKind(b, o, p, h) ==
    IF Len(b) - o <= 0 THEN "EndOfFrame"
    ELSE IF ~MsgValid(b, o) THEN "AbortOnInvalid"
    ELSE LET seg == SegOf(At(b, o + 12)) IN
         IF seg = SegNone THEN "DeliverUnsegmented"
         ELSE IF seg = SegFirst THEN "OpenSegmented"
         ELSE IF ~p.open \/ p.ver # h.ver \/ p.mt # h.mt \/ h.seq # NextSeqD(p.cur) THEN "RejectSegment"
         ELSE IF seg = SegLast THEN "CompleteSegmented" ELSE "ContinueSegmented"

RECURSIVE DecWalk(_, _, _, _, _)
DecWalk(b, o, p, out, h) ==
    LET k == StepKind(b, o, p, h) IN
    IF k = "EndOfFrame" THEN [pend |-> p, out |-> out]
    ELSE IF k = "AbortOnInvalid" THEN [pend |-> NoPend, out |-> out]
    ELSE LET n  == U16(b, o + 14)
             mh == Slice(b, o, 16)
             pl == Slice(b, o + 16, n)
         IN
         IF k = "DeliverUnsegmented" THEN
             DecWalk(b, o + 16 + n, NoPend, Append(out, DecodedPkt(h, mh, pl)), h)
         ELSE IF k = "OpenSegmented" THEN
             [pend |-> [open |-> TRUE, hdr |-> mh, buf |-> pl, seg |-> SegFirst,
                        ver |-> h.ver, mt |-> h.mt, cur |-> h.seq],
              out  |-> out]
         ELSE IF k = "RejectSegment" THEN [pend |-> NoPend, out |-> out]
         ELSE IF k = "CompleteSegmented" THEN
             [pend |-> NoPend,
              out  |-> Append(out, DecodedPkt([h EXCEPT !.ver = p.ver, !.mt = p.mt], p.hdr, p.buf \o pl))]
         ELSE
             [pend |-> [p EXCEPT !.buf = @ \o pl, !.seg = SegMid, !.cur = h.seq], out |-> out]

Route(b) == IF Len(b) < 8 THEN "Short" ELSE IF b[1] = 0 THEN "Tecmp" ELSE "Cmp"

PendOf(pending, e) == IF e \in DOMAIN pending THEN pending[e] ELSE NoPend

SetPend(pending, e, p) ==
    IF p.open THEN [x \in (DOMAIN pending) \cup {e} |-> IF x = e THEN p ELSE pending[x]]
    ELSE [x \in (DOMAIN pending) \ {e} |-> pending[x]]

Decode(pending, b) ==
    LET r == Route(b) IN
    IF r = "Short" THEN [pend |-> pending, out |-> << >>]
    ELSE IF r = "Tecmp" THEN [pend |-> pending, out |-> TecmpDecode(b)]
    ELSE LET h == HdrOf(b)
             e == << h.dev, h.st >>
             w == DecWalk(b, 8, PendOf(pending, e), << >>, h)
         IN [pend |-> SetPend(pending, e, w.pend), out |-> w.out]

EmptyPending == [x \in {} |-> NoPend]

(* bytes held for an endpoint: header of the first segment + buffered payload *)
PendBytes(p) == IF p.open THEN 16 + Len(p.buf) ELSE 0

=============================================================================
