------------------------------- MODULE MC_Sys -------------------------------
(* The components composed: capture modules (one encoder each) send status    *)
(* and data messages; their frames travel over a link that may lose frames    *)
(* and interleaves the devices; one decoder reassembles; every delivered      *)
(* packet updates the status tracker, from which devices may be removed.      *)
(*                                                                            *)
(*    Encoder(d) --frames--> q[d] --Deliver / Lose--> Decoder --> Status      *)
(*                                                                            *)
(* The frame size is chosen so that every status message needs two segment    *)
(* frames, data messages one.  The sender-side ghost `exp` is the tracker a   *)
(* user is entitled to: the latest-message map of the messages whose frames   *)
(* all arrived.  System property (follows from C01, C05, C06, C16, C18; here  *)
(* checked on the composition itself):                                        *)
(*    SysTracker   the tracker computed from what the decoder delivers equals *)
(*                 the ghost, whatever was lost and however the devices'      *)
(*                 frames interleave                                          *)
(*    SysPending   the decoder holds state only for devices with a message    *)
(*                 partly arrived                                             *)
(* TECMP capture modules send their status messages (capture-module status,   *)
(* bus status with one entry per interface) straight into the same decoder:   *)
(* it converts them (Tecmp!TecmpDecode) without touching its reassembly       *)
(* table, and the converted packets update the tracker like any other.  The   *)
(* ghost for them is written from Payloads!RenderCm / RenderIf, not from the  *)
(* converter: a TECMP module appears as a device with its latest status and   *)
(* one interface per bus-status entry.                                        *)
EXTENDS Encoder, Status, Tecmp, TLC, Json

CONSTANTS MaxEmits, MaxLoss, MaxRemovals, MaxTecmp, TecKs, Tags, DumpCases

VARIABLES seq, q, pending, trk, exp, fly, nem, nloss, nrem, ntec, hist
vars == << seq, q, pending, trk, exp, fly, nem, nloss, nrem, ntec, hist >>
View == << seq, q, pending, trk, exp, fly, nem, nloss, nrem, ntec >>

D == INSTANCE Decoder WITH TecmpDecode <- TecmpDecode

Devs == {1, 2}
DevId(d) == 16 + d
Stream == 5
Ctx == [min |-> 44, max |-> 48]          \* 24 payload bytes per frame: 36 and 40 byte status payloads take two frames; data frames and last segments are padded

CmPkt(d, t) == [mt |-> 3, pt |-> 1, ver |-> 1, ts |-> << 0, 0, 0, 0, 0, 1, d, t >>, ifid |-> << 0, 0, 0, 0 >>, vid |-> 10 * d + t,
                fl |-> 0, pl |-> [j \in 1..36 |-> IF j = 8 THEN t ELSE 0]]
IfPkt(d, i, t) == [mt |-> 3, pt |-> 2, ver |-> 1, ts |-> << 0, 0, 0, 0, 0, 2, d, t >>, ifid |-> << 0, 0, 0, 0 >>, vid |-> 100 * i + t,
                   fl |-> 0, pl |-> << 0, 0, 0, i >> \o [j \in 1..36 |-> IF j = 4 THEN t ELSE IF j = 26 THEN 1 ELSE 0]]
DataPkt(d) == [mt |-> 1, pt |-> 1, ver |-> 1, ts |-> << 0, 0, 0, 0, 0, 3, d, 0 >>, ifid |-> << 0, 0, 0, 1 >>, vid |-> 0,
               fl |-> 0, pl |-> << 0, 0, 0, 0, 0, 0, 0, 1, 0, 0, 0, 0, 0, 0, 2, 2, 7, 8 >>]

Batches(d) == {<< CmPkt(d, t) >> : t \in Tags} \cup {<< IfPkt(d, i, t) >> : i \in {1, 2}, t \in Tags}
              \cup {<< DataPkt(d) >>} \cup {<< CmPkt(d, t), IfPkt(d, 1, t) >> : t \in Tags}

(* the packet as the tracker will see it if it arrives *)
Arrives(d, p) == [dev |-> DevId(d), mt |-> p.mt, pt |-> p.pt, ts |-> p.ts, vid |-> p.vid, pl |-> p.pl]
Proj(p) == [dev |-> p.dev, mt |-> p.mt, pt |-> p.pt, ts |-> p.ts, vid |-> p.vid, pl |-> p.pl]
ProjMap(m) == [d \in DOMAIN m |-> [pkt |-> Proj(m[d].pkt), ifs |-> [i \in DOMAIN m[d].ifs |-> Proj(m[d].ifs[i])]]]

(* ---- TECMP modules ------------------------------------------------------------- *)
TDevs == {3}                             \* TECMP device id DevId(3) = 19 (one byte on the wire)
TecHdr(d, mt, t, plen) ==
    << 0, DevId(d), 0, t, 3, mt, 0, 0, 0, 0, 0, 15 >> \o << 0, 0, 0, 9 >> \o << 0, 0, 0, 0, 0, 4, d, t >> \o BE16(plen) \o << 0, 0 >>
TecSerial(t) == << 0, 0, 1, t >>
TecCm(d, t) ==           \* 12 generic bytes (serial number at 8..11), vendor data with sw version at 13..15, hw version at 16..17
    TecHdr(d, 1, t, 36) \o << 12, 1, 4, 0, 0, 24, 0, 67 >> \o TecSerial(t) \o << 0, 20, 7, t, 3, 3 >> \o Zeros(18)
TecEntry(i, t) == << 0, 0, 0, i >> \o << 0, 1, t, 2 >> \o << 0, 0, 0, t >>
TecBus(d, t, k) == TecHdr(d, 2, t, 12 + 12 * k) \o Zeros(12) \o FlattenSeq([i \in 1..k |-> TecEntry(i, t)])
TecFrames(d) == {TecCm(d, t) : t \in Tags} \cup {TecBus(d, t, k) : t \in Tags, k \in TecKs}

(* what the user is entitled to see for such a frame: written with the builders' rendering, not with the converter *)
GhostCm(d, t) == [dev |-> DevId(d), mt |-> 3, pt |-> 1, ts |-> << 0, 0, 0, 0, 0, 4, d, t >>, vid |-> 0,
                  pl |-> RenderCm(Zeros(26), << >>, Decimal(TecSerial(t)), VersionString(<< 3, 3 >>), VersionString(<< 20, 7, t >>), << >>)]
GhostIf(d, i, t) == [dev |-> DevId(d), mt |-> 3, pt |-> 2, ts |-> << 0, 0, 0, 0, 0, 4, d, t >>, vid |-> 0,
                     pl |-> RenderIf(<< 0, 0, 0, i >> \o << 0, 1, t, 2 >> \o Zeros(12) \o << 0, 0, 0, t >> \o Zeros(12), << >>, << >>)]
GhostOf(d, f) ==
    LET t == f[4] IN
    IF f[6] = 1 THEN << GhostCm(d, t) >> ELSE [i \in 1..((Len(f) - 40) \div 12) |-> GhostIf(d, i, t)]

Init ==
    /\ ntec = 0
    /\ seq = [d \in Devs |-> 0] /\ q = [d \in Devs |-> << >>] /\ pending = D!EmptyPending
    /\ trk = EmptyMap /\ exp = EmptyMap /\ fly = [d \in Devs |-> << >>]
    /\ nem = 0 /\ nloss = 0 /\ nrem = 0
    /\ hist = [key |-> << >>, last |-> [op |-> "new"]]

Log(label, op) == hist' = [key |-> Append(hist.key, label), last |-> op]

(* number of frames a packet of a batch takes (no two packets of these batches share a frame) *)
FramesOf(p) == IF Fits(p, Ctx) THEN 1 ELSE NSeg(p, Ctx)

(* a number identifying the batch among those of its device: tag (1..3) and interface id are in its content *)
LabelOf(b) == 100 * Len(b) + 20 * b[1].pt + (IF b[1].mt = 3 THEN b[1].ts[8] + 4 * b[1].pl[4] ELSE 0)

Emit(d, b) ==
    LET r == Encode(DevId(d), Stream, seq[d], b, Ctx) IN
    /\ nem < MaxEmits /\ q[d] = << >>
    /\ nem' = nem + 1
    /\ seq' = [seq EXCEPT ![d] = r.seq]
    /\ q' = [q EXCEPT ![d] = r.frames]
    /\ fly' = [fly EXCEPT ![d] = [k \in 1..Len(b) |-> [p |-> Arrives(d, b[k]), left |-> FramesOf(b[k]), lost |-> FALSE]]]
    /\ Assert(Len(r.frames) = FramesOf(b[1]) + (IF Len(b) = 2 THEN FramesOf(b[2]) ELSE 0), "the ghost's frame accounting")
    /\ UNCHANGED << pending, trk, exp, nloss, nrem, ntec >>
    /\ Log(1000 * d + LabelOf(b), [op |-> "sys.emit", dev |-> DevId(d), stream |-> Stream, min |-> Ctx.min, max |-> Ctx.max, batch |-> b])

RECURSIVE FoldUpd(_, _, _)
FoldUpd(m, ps, k) == IF k > Len(ps) THEN m ELSE FoldUpd(MapUpdate(m, ps[k]), ps, k + 1)

(* the head frame of q[d] leaves the link: the ghost's head message has one frame less to wait for *)
FlyAfter(d, lost) ==
    LET h == fly[d][1]
        h2 == [h EXCEPT !.left = @ - 1, !.lost = @ \/ lost]
    IN IF h2.left = 0 THEN [done |-> TRUE, msg |-> h2, rest |-> SubSeq(fly[d], 2, Len(fly[d]))]
       ELSE [done |-> FALSE, rest |-> << h2 >> \o SubSeq(fly[d], 2, Len(fly[d]))]

Deliver(d) ==
    LET f == q[d][1]
        r == D!Decode(pending, f)
        g == FlyAfter(d, FALSE)
    IN
    /\ q[d] # << >>
    /\ q' = [q EXCEPT ![d] = SubSeq(@, 2, Len(@))]
    /\ pending' = r.pend
    /\ trk' = FoldUpd(trk, r.out, 1)
    /\ fly' = [fly EXCEPT ![d] = g.rest]
    /\ exp' = IF g.done /\ ~g.msg.lost THEN MapUpdate(exp, g.msg.p) ELSE exp
    /\ UNCHANGED << seq, nem, nloss, nrem, ntec >>
    /\ Log(10 + d, [op |-> "sys.deliver", dev |-> DevId(d)])

Lose(d) ==
    /\ q[d] # << >> /\ nloss < MaxLoss
    /\ nloss' = nloss + 1
    /\ q' = [q EXCEPT ![d] = SubSeq(@, 2, Len(@))]
    /\ fly' = [fly EXCEPT ![d] = FlyAfter(d, TRUE).rest]
    /\ UNCHANGED << seq, pending, trk, exp, nem, nrem, ntec >>
    /\ Log(20 + d, [op |-> "sys.lose", dev |-> DevId(d)])

Remove(d) ==
    /\ nrem < MaxRemovals
    /\ nrem' = nrem + 1
    /\ trk' = MapRemoveDev(trk, DevId(d)) /\ exp' = MapRemoveDev(exp, DevId(d))
    /\ UNCHANGED << seq, q, pending, fly, nem, nloss, ntec >>
    /\ Log(30 + d, [op |-> "removeDev", dev |-> DevId(d)])

(* a TECMP status message arrives (these are single frames: nothing to lose half of) *)
TecmpArrive(d, f) ==
    LET r == D!Decode(pending, f) IN
    /\ ntec < MaxTecmp
    /\ ntec' = ntec + 1
    /\ pending' = r.pend
    /\ trk' = FoldUpd(trk, r.out, 1)
    /\ exp' = FoldUpd(exp, GhostOf(d, f), 1)
    /\ UNCHANGED << seq, q, fly, nem, nloss, nrem >>
    /\ Log(5000 + 100 * f[6] + 10 * f[4] + (Len(f) - 40) \div 12, [op |-> "sys.tecmp", dev |-> DevId(d), frame |-> f])

Next == \/ \E d \in Devs : (\E b \in Batches(d) : Emit(d, b)) \/ Deliver(d) \/ Lose(d)
        \/ \E d \in Devs \cup TDevs : Remove(d)
        \/ \E d \in TDevs : \E f \in TecFrames(d) : TecmpArrive(d, f)

Spec == Init /\ [][Next]_vars

SysTracker == ProjMap(trk) = ProjMap(exp)
(* reassembly state only for endpoints that exist *)
SysPending == \A e \in DOMAIN pending : \E d \in Devs : e = << DevId(d), Stream >>
(* statuses of interfaces only under devices that have a capture-module status *)
SysShape == \A d \in DOMAIN trk : IsCm(trk[d].pkt) /\ \A i \in DOMAIN trk[d].ifs : IsIf(trk[d].ifs[i]) /\ IfIdOf(trk[d].ifs[i]) = i

DumpEdges == DumpCases => PrintT(<< "EDGE", hist'.key, ToJson(hist'.last) >>)
=============================================================================
