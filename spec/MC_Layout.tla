----------------------------- MODULE MC_Layout -----------------------------
(* The field tables themselves (C11, C12 at design level): for every class,   *)
(* field, value pattern and background, writing a field and reading it back   *)
(* returns the value, changes no bit outside the field, and the fields of a   *)
(* class are pairwise disjoint and lie inside the header.  An overlapping or  *)
(* misplaced table entry fails here before it can mis-judge the code.  Every  *)
(* enumerated (class, background, field, value) is also a case for the real   *)
(* objects: load the background bytes, call the setter, compare.              *)
EXTENDS Layout, TLC, Json

CONSTANTS DumpCases

VARIABLES pc, cls, fld, before, val, after, hist
vars == << pc, cls, fld, before, val, after, hist >>
View == << pc, cls, fld, before, val, after >>

Patterns(w) == {<< "zeros", 0 >>, << "ones", 0 >>} \cup {<< "walk1", k >> : k \in 1..w} \cup {<< "walk0", k >> : k \in 1..w}
PatBits(p, w) ==
    CASE p[1] = "zeros" -> [i \in 1..w |-> 0]
      [] p[1] = "ones"  -> [i \in 1..w |-> 1]
      [] p[1] = "walk1" -> [i \in 1..w |-> IF i = p[2] THEN 1 ELSE 0]
      [] p[1] = "walk0" -> [i \in 1..w |-> IF i = p[2] THEN 0 ELSE 1]

(* fields that have a setter in the API, with values restricted to the field's range *)
NoSetter == {<< "can", "dlc" >>, << "can", "dataLength" >>, << "canfd", "dlc" >>, << "canfd", "dataLength" >>,
             << "lin", "dataLength" >>, << "eth", "dataLength" >>, << "tecmpHeader", "isTecmp" >>,
             << "tecmpHeader", "dataFlags" >>, << "payloadType", "high" >>, << "payload", "high" >>}
InRange(c, f, bits) ==
    /\ (f.n = "sampleDt" => bits \in {<< 0, 0 >>, << 0, 1 >>})
    /\ (f.n = "segMask" => bits \in {<< 0, 0 >>, << 1, 1 >>})
    /\ (c = "packet" /\ f.n = "segmentType" => SubSeq(bits, 1, 6) = << 0, 0, 0, 0, 0, 0 >>)

Background(c, kind) == IF kind = "zeros" THEN Zeros(Table[c].size + 2) ELSE Fill(Table[c].size + 2, 255)

PadBits(bits) == LET w == Len(bits)  n == 8 * ((w + 7) \div 8) IN [i \in 1..(n - w) |-> 0] \o bits

Init == pc = "pick" /\ cls \in Classes /\ fld = << >> /\ before = << >> /\ val = << >> /\ after = << >> /\ hist = << >>

Pick(c, f, p, bg) ==
    LET bits == PatBits(p, f.w)  b0 == Background(c, bg) IN
    /\ InRange(c, f, bits)
    /\ pc' = "done" /\ cls' = c /\ fld' = f /\ before' = b0 /\ val' = bits
    /\ after' = Put(c, b0, f, bits)
    /\ hist' = << [op |-> "load", cls |-> c, raw |-> b0],
                  [op |-> "set", cls |-> c, f |-> f.n, v |-> BitsToBytes(PadBits(bits))] >>

Next ==
    /\ pc = "pick"
    /\ \E c \in {cls} : \E k \in 1..Len(AllFields(c)) :
         LET f == AllFields(c)[k] IN
         /\ << c, f.n >> \notin NoSetter
         /\ \E p \in Patterns(f.w), bg \in {"zeros", "ones"} : Pick(c, f, p, bg)

Spec == Init /\ [][Next]_vars

(* write then read returns the value; no other bit changes *)
InvPutGet == pc = "done" =>
    /\ Get(cls, after, fld) = val
    /\ Len(after) = Len(before)
    /\ \A i \in 1..(8 * Table[cls].size) : i \notin BitsOfField(fld) => HdrBits(cls, after)[i] = HdrBits(cls, before)[i]
    /\ SubSeq(after, Table[cls].size + 1, Len(after)) = SubSeq(before, Table[cls].size + 1, Len(before))
    /\ \A k \in 1..Len(AllFields(cls)) :
          LET g == AllFields(cls)[k] IN ~Overlap(g, fld) => Get(cls, after, g) = Get(cls, before, g)
    /\ ReservedOf(cls, after) = ReservedOf(cls, before)

(* the tables are well-formed *)
TableOK ==
    \A c \in Classes :
        /\ \A k \in 1..Len(AllFields(c)) : AllFields(c)[k].o + AllFields(c)[k].w <= 8 * Table[c].size
        /\ \A j, k \in 1..Len(Table[c].fields) : j # k => ~Overlap(Table[c].fields[j], Table[c].fields[k])
        /\ \A k \in 1..Len(Table[c].views) : BitsOfField(Table[c].views[k]) \subseteq CoveredBits(c)
        /\ Len(Default(c)) >= Table[c].size
        /\ \A i \in ReservedBits(c) : HdrBits(c, Default(c))[i] = 0
ASSUME TableOK
(* the generators of random setter sequences read the tables from here: one source of truth *)
ASSUME PrintT(<< "TABLE", ToJson([c \in Classes |-> [size |-> Table[c].size, fields |-> AllFields(c),
                                                      nosetter |-> {x[2] : x \in {y \in NoSetter : y[1] = c}}]]) >>)

DumpEdges == (DumpCases /\ pc' = "done") => PrintT(<< "CASE", ToJson(hist') >>)
=============================================================================
