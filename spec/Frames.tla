------------------------------ MODULE Frames ------------------------------
(* ASAM CMP frames on the wire: 8 byte CMP header, then messages, each a     *)
(* 16 byte message header and payload.  Rendering of headers from logical    *)
(* packets, and an independent walker that parses a frame from its bytes.    *)
(*                                                                           *)
(* CMP header   0 version | 1 reserved | 2..3 device id | 4 message type |   *)
(*              5 stream id | 6..7 sequence counter                          *)
(* message hdr  0..7 timestamp | 8..11 interface id (data) or 8..9 reserved, *)
(*              10..11 vendor id (status, vendor) | 12 common flags          *)
(*              (bits 3..2 segment: 0 none 1 first 2 intermediary 3 last,    *)
(*              0x40 error in payload) | 13 payload type | 14..15 length     *)
EXTENDS Payloads

CmpHdrSize == 8
MsgHdrSize == 16

SegNone == 0  SegFirst == 1  SegMid == 2  SegLast == 3
SegOf(fl) == (fl \div 4) % 4
WithSeg(fl, seg) == fl - 4 * SegOf(fl) + 4 * seg
NoSegBits(fl) == fl - 4 * SegOf(fl)
ErrInPayload(fl) == (fl \div 64) % 2 = 1

(* A logical packet is a record                                              *)
(*   [mt, pt, ver, ts (8 bytes), ifid (4 bytes), vid (0..65535), fl, pl]     *)
FrameHdr(ver, dev, mt, stream, seq) ==
    << ver, 0 >> \o BE16(dev) \o << mt, stream >> \o BE16(seq)

IdBytes(mt, ifid, vid) ==
    IF mt = MtData THEN ifid
    ELSE IF mt \in {MtStatus, MtVendor} THEN << 0, 0 >> \o BE16(vid)
    ELSE << 0, 0, 0, 0 >>

MsgHdr(p, seg, n) ==
    p.ts \o IdBytes(p.mt, p.ifid, p.vid) \o << WithSeg(p.fl, seg), p.pt >> \o BE16(n)

(* ---- parsed frame header ---------------------------------------------- *)
HdrOf(b) == [ver |-> At(b, 0), dev |-> U16(b, 2), mt |-> At(b, 4), st |-> At(b, 5), seq |-> U16(b, 6)]

(* ---- the walker --------------------------------------------------------- *)
(* Message at offset o of frame b is complete when its header and declared   *)
(* payload fit; a payload type of 0 marks padding / end of messages.         *)
MsgComplete(b, o) == Len(b) - o >= 16 /\ 16 + U16(b, o + 14) <= Len(b) - o
MsgRec(b, o) == [o |-> o, len |-> U16(b, o + 14), fl |-> At(b, o + 12), pt |-> At(b, o + 13)]

RECURSIVE WalkMsgs(_, _, _)
WalkMsgs(b, o, acc) ==
    IF ~MsgComplete(b, o) \/ At(b, o + 13) = 0
    THEN [msgs |-> acc, end |-> o]
    ELSE WalkMsgs(b, o + 16 + U16(b, o + 14), Append(acc, MsgRec(b, o)))

Walk(b) == WalkMsgs(b, 8, << >>)

MsgPayload(b, m) == Slice(b, m.o + 16, m.len)

(* logical packet described by message m of frame b *)
WirePacket(b, m) ==
    LET h == HdrOf(b) IN
    [dev |-> h.dev, st |-> h.st, ver |-> h.ver, mt |-> h.mt,
     ts   |-> Slice(b, m.o, 8),
     ifid |-> IF h.mt = MtData THEN Slice(b, m.o + 8, 4) ELSE << 0, 0, 0, 0 >>,
     vid  |-> IF h.mt \in {MtStatus, MtVendor} THEN U16(b, m.o + 10) ELSE 0,
     fl   |-> m.fl, pt |-> m.pt, len |-> m.len,
     pl   |-> MsgPayload(b, m)]

=============================================================================
