----------------------------- MODULE TraceValid -----------------------------
(* Judge for recorded validity checks and accessor calls (C03).               *)
(*   C03  accepted => the buffer holds the header, its inner structure is     *)
(*        consistent with its size, and every view an accessor reported lies  *)
(*        inside the payload's own bytes (this is the property, not           *)
(*        "accepted = the specification's verdict");                          *)
(*        message level: accepted => header and declared payload fit          *)
(*   NC   accepted = ValidPayload of spec/Payloads.tla, views = Views          *)
EXTENDS Payloads, TLC, Json, IOUtils

Log == ndJsonDeserialize(IOEnv.TRACE)
VARIABLES l, ep, live, cnt
vars == << l, ep, live, cnt >>
Cnt0 == [payload_checks |-> 0, accepted |-> 0, rejected |-> 0, views |-> 0, message_checks |-> 0, messages_accepted |-> 0]
Init == l = 1 /\ ep = "" /\ live = FALSE /\ cnt = Cnt0
Has(r, f) == f \in DOMAIN r
Report(fails) == IF fails = {} THEN TRUE ELSE PrintT(<< "FAIL", l, ep, fails >>)

ViewsInside(e) == \A x \in 1..Len(e.views) :
    LET v == e.views[x] IN Has(v, "null") \/ (v.off >= 0 /\ v.off + v.len <= Len(e.bytes))

(* the views the specification computes, by name; a view of length 0 may be reported as a null pointer *)
SpecView(k, b, n) == LET vs == Views(k, b) IN vs[CHOOSE x \in 1..Len(vs) : vs[x].name = n]
ViewsMatch(e) == \A x \in 1..Len(e.views) :
    LET v == e.views[x] IN
    IF v.n \in {"desc", "serial", "hw", "sw"} THEN             \* strings are reported up to the first NUL
        LET sv == SpecView(e.kind, e.bytes, v.n) IN
        Has(v, "null") \/ (v.off = sv.off /\ v.len = Len(CString(e.bytes, sv)))
    ELSE IF v.n = "vendorView" THEN TRUE
    ELSE LET sv == SpecView(e.kind, e.bytes, v.n) IN
         IF Has(v, "null") THEN sv.len = 0 ELSE v.off = sv.off /\ v.len = sv.len

PayloadFails(e) ==
    (IF e.accepted /\ ~(InBounds(e.kind, e.bytes) /\ ViewsInside(e)) THEN {"C03"} ELSE {})
    \cup (IF e.accepted # ValidPayload(e.kind, e.bytes) \/ (e.accepted /\ InBounds(e.kind, e.bytes) /\ ~ViewsMatch(e)) THEN {"NC"} ELSE {})

MessageFails(e) ==
    LET b == e.bytes IN
    (IF e.accepted /\ ~(Len(b) >= 16 /\ 16 + U16(b, 14) <= Len(b)) THEN {"C03"} ELSE {})
    \cup (IF e.accepted /\ Len(b) >= 16 /\ (e.pkt.len # U16(b, 14) \/ Len(e.pkt.pl) # U16(b, 14)) THEN {"C03"} ELSE {})
    \cup (IF e.accepted /\ Has(e, "views") /\                            \* a packet returned as valid, through its typed class
             ~(InBounds(e.kind, e.pkt.pl) /\ \A x \in 1..Len(e.views) :
                    LET v == e.views[x] IN Has(v, "null") \/ (v.off >= 0 /\ v.off + v.len <= Len(e.pkt.pl)))
          THEN {"C03"} ELSE {})
    \cup (IF e.accepted # (Len(b) >= 16 /\ 16 + U16(b, 14) <= Len(b) /\ (At(b, 12) \div 64) % 2 = 0 /\ At(b, 13) # 0) THEN {"NC"} ELSE {})

Step ==
    /\ l <= Len(Log)
    /\ l' = l + 1
    /\ LET e == Log[l] IN
       CASE e.e = "begin" -> ep' = e.id /\ live' = TRUE /\ UNCHANGED cnt
         [] e.e = "crash" -> Report(IF live THEN {"CRASH", "C03"} ELSE {}) /\ live' = FALSE /\ UNCHANGED << ep, cnt >>
         [] e.e \notin {"begin", "crash"} /\ ~live -> UNCHANGED << ep, live, cnt >>
         [] live /\ e.e = "vld.payload" ->
              /\ Report(PayloadFails(e))
              /\ cnt' = [cnt EXCEPT !.payload_checks = @ + 1, !.accepted = @ + (IF e.accepted THEN 1 ELSE 0),
                                    !.rejected = @ + (IF e.accepted THEN 0 ELSE 1),
                                    !.views = @ + (IF e.accepted THEN Len(e.views) ELSE 0)]
              /\ UNCHANGED << ep, live >>
         [] live /\ e.e = "vld.message" ->
              /\ Report(MessageFails(e))
              /\ cnt' = [cnt EXCEPT !.message_checks = @ + 1, !.messages_accepted = @ + (IF e.accepted THEN 1 ELSE 0)]
              /\ UNCHANGED << ep, live >>
         [] OTHER -> Report({"UNKNOWN-EVENT"}) /\ UNCHANGED << ep, live, cnt >>

Done == l > Len(Log) /\ UNCHANGED vars
Next == Step \/ Done
Spec == Init /\ [][Next]_vars
Consumed == (l = Len(Log) + 1) =>
                /\ \A k \in DOMAIN cnt : PrintT(<< "COUNT", k, cnt[k] >>)
                /\ PrintT(<< "DONE", Len(Log) >>)
=============================================================================
