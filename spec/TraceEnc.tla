------------------------------ MODULE TraceEnc ------------------------------
(* Judge for recorded executions of the real Encoder.  The log (ndjson, one  *)
(* event per public call, written by harness/exec) is consumed line by line; *)
(* the specification state (dev, stream, seq) is advanced by the Encoder     *)
(* spec and the property monitors of EncProps are evaluated on the observed  *)
(* frames.  Next is always enabled: a failing event is reported              *)
(* (<<"FAIL", line, episode, monitors>>) and the rest of its episode is      *)
(* skipped, so one run reports every failing episode.                        *)
EXTENDS EncProps, TLC, Json, IOUtils

Log == ndJsonDeserialize(IOEnv.TRACE)

VARIABLES l,        \* next line of Log
          ep,       \* id of the current episode
          live,     \* FALSE after a failure / crash: skip to the next episode
          dev, stream, seq,     \* specification state of the encoder
          mon       \* C09 monitor: counter of the last frame observed (0 after set id / restart)

vars == << l, ep, live, dev, stream, seq, mon >>

Init == l = 1 /\ ep = "" /\ live = FALSE /\ dev = 0 /\ stream = 0 /\ seq = 0 /\ mon = 0

Ev == Log[l]

Report(fails) == IF fails = {} THEN TRUE ELSE PrintT(<< "FAIL", l, ep, fails >>)

Has(r, f) == f \in DOMAIN r

(* monitors of one encode event; returns the set of failed monitor names *)
EncodeFails(e) ==
    LET batch  == e.batch
        ctx    == e.ctx
        frames == e.frames
        exp    == Encode(dev, stream, seq, batch, ctx)
        inDom  == InC07Domain(batch, ctx)
    IN  (IF inDom /\ ~FramesWellFormed(batch, ctx, frames) THEN {"C07"} ELSE {})
   \cup (IF inDom /\ ~SegRules(batch, ctx, frames) THEN {"C08"} ELSE {})
   \cup (IF inDom /\ ~CounterRule(mon, dev, stream, batch, frames, e.seq, e.dev, e.stream) THEN {"C09"} ELSE {})
   \cup (IF inDom /\ Has(e, "fresh") /\ ~SameUpToShift(frames, e.fresh) THEN {"C10"} ELSE {})
   \cup (IF inDom /\ (frames # exp.frames \/ e.seq # exp.seq) THEN {"NC"} ELSE {})

LastSeq(frames, dflt) ==
    IF frames # << >> /\ Len(frames[Len(frames)]) >= 8 THEN HdrOf(frames[Len(frames)]).seq ELSE dflt

Step ==
    /\ l <= Len(Log)
    /\ l' = l + 1
    /\ LET e == Ev IN
       CASE e.e = "begin" ->
              /\ ep' = e.id /\ live' = TRUE
              /\ UNCHANGED << dev, stream, seq, mon >>
         [] e.e = "crash" ->
              /\ Report(IF live THEN {"CRASH"} ELSE {})
              /\ live' = FALSE
              /\ UNCHANGED << ep, dev, stream, seq, mon >>
         [] ~live -> UNCHANGED << ep, live, dev, stream, seq, mon >>
         [] e.e = "enc.init" ->            \* fresh encoder, ids set, optionally warmed up to a counter
              /\ dev' = e.dev /\ stream' = e.stream /\ seq' = e.seq /\ mon' = e.seq
              /\ UNCHANGED << ep, live >>
         [] e.e \in {"enc.setDev", "enc.setStream", "enc.restart"} ->
              LET d  == IF e.e = "enc.setDev" THEN e.v ELSE dev
                  s  == IF e.e = "enc.setStream" THEN e.v ELSE stream
                  ok == e.dev = d /\ e.stream = s /\ e.seq = 0
                  fails == IF ok THEN {} ELSE {"C09", "NC"}
              IN /\ Report(fails)
                 /\ live' = (fails = {})
                 /\ dev' = d /\ stream' = s /\ seq' = 0 /\ mon' = 0
                 /\ UNCHANGED ep
         [] e.e = "enc.encode" ->
              LET fails == EncodeFails(e) IN
              /\ Report(fails)
              /\ live' = (fails \subseteq {"NC"})          \* a pure nonconformance note does not end the episode
              /\ seq' = e.seq /\ mon' = LastSeq(e.frames, mon)
              /\ UNCHANGED << ep, dev, stream >>
         [] OTHER ->
              /\ Report({"UNKNOWN-EVENT"})
              /\ UNCHANGED << ep, live, dev, stream, seq, mon >>

Done == l > Len(Log) /\ UNCHANGED vars

Next == Step \/ Done

Spec == Init /\ [][Next]_vars

(* the whole log was consumed: checked by the driver from the DONE line *)
Consumed == (l = Len(Log) + 1) => PrintT(<< "DONE", Len(Log) >>)

=============================================================================
