------------------------------ MODULE TraceEnc ------------------------------
(* Judge for recorded executions of the real Encoder.  The log (ndjson, one  *)
(* event per public call, written by harness/exec) is consumed line by line; *)
(* the specification state (dev, stream, seq) is advanced by the Encoder     *)
(* spec and the property monitors of EncProps are evaluated on the observed  *)
(* frames.  Next is always enabled: a failing event is reported              *)
(* (<<"FAIL", line, episode, monitors>>) and the rest of its episode is      *)
(* skipped, so one run reports every failing episode.                        *)
EXTENDS EncProps, TLC, Json, IOUtils

Log == ndJsonDeserialize(IOEnv.TRACE)

VARIABLES l,        \* next line of Log
          ep,       \* id of the current episode
          live,     \* FALSE after a failure / crash: skip to the next episode
          dev, stream, seq,     \* specification state of the encoder
          mon,      \* C09 monitor: counter of the last frame observed (0 after set id / restart)
          ncalls,   \* encode calls so far in this episode
          cnt       \* non-vacuity counters

vars == << l, ep, live, dev, stream, seq, mon, ncalls, cnt >>

Cnt0 == [calls |-> 0, segmented_calls |-> 0, aggregated_calls |-> 0, mixed_type_calls |-> 0,
         wrap_calls |-> 0, later_segmented_calls |-> 0, padded_calls |-> 0, roundtrips |-> 0, frames |-> 0]

Init == l = 1 /\ ep = "" /\ live = FALSE /\ dev = 0 /\ stream = 0 /\ seq = 0 /\ mon = 0 /\ ncalls = 0 /\ cnt = Cnt0

Ev == Log[l]

Report(fails) == IF fails = {} THEN TRUE ELSE PrintT(<< "FAIL", l, ep, fails >>)

Has(r, f) == f \in DOMAIN r

(* monitors of one encode event; returns the set of failed monitor names *)
EncodeFails(e) ==
    LET batch  == e.batch
        ctx    == e.ctx
        frames == e.frames
        exp    == Encode(dev, stream, seq, batch, ctx)
        inDom  == InC07Domain(batch, ctx)
    IN  (IF inDom /\ ~FramesWellFormed(batch, ctx, frames) THEN {"C07"} ELSE {})
   \cup (IF inDom /\ ~SegRules(batch, ctx, frames) THEN {"C08"} ELSE {})
   \cup (IF inDom /\ ~CounterRule(mon, dev, stream, batch, frames, e.seq, e.dev, e.stream) THEN {"C09"} ELSE {})
   \cup (IF inDom /\ Has(e, "fresh") /\ ~SameUpToShift(frames, e.fresh) THEN {"C10"} ELSE {})
   \cup (IF Has(e, "decoded") /\ InC01Domain(batch, ctx) /\ ~RoundTripOK(batch, dev, stream, e.decoded) THEN {"C01"} ELSE {})
   \cup (IF inDom /\ (frames # exp.frames \/ e.seq # exp.seq) THEN {"NC"} ELSE {})

(* a call that did not return: every property whose domain contains the call  *)
CrashFails(e) ==
    IF ~Has(e, "during") THEN {"CRASH"}
    ELSE LET op == e.during IN
         IF op.op = "encode" THEN
            {"CRASH"} \cup (IF InC07Domain(op.batch, op.ctx) THEN {"C07", "C08", "C09", "C10"} ELSE {})
                      \cup (IF InC01Domain(op.batch, op.ctx) THEN {"C01"} ELSE {})
         ELSE {"CRASH", "C09"}

LastSeq(frames, dflt) ==
    IF frames # << >> /\ Len(frames[Len(frames)]) >= 8 THEN HdrOf(frames[Len(frames)]).seq ELSE dflt

Bump(c, e) ==
    LET nseg == Cardinality({x \in 1..Len(e.batch) : ~Fits(e.batch[x], e.ctx)})
        nfr  == Len(e.frames) IN
    [c EXCEPT !.calls = @ + 1,
              !.frames = @ + nfr,
              !.segmented_calls = @ + (IF nseg > 0 THEN 1 ELSE 0),
              !.later_segmented_calls = @ + (IF nseg > 0 /\ ncalls > 0 THEN 1 ELSE 0),
              !.aggregated_calls = @ + (IF Len(e.batch) - nseg > nfr THEN 1 ELSE 0) ,
              !.mixed_type_calls = @ + (IF \E x \in 1..Len(e.batch) : e.batch[x].mt # e.batch[1].mt THEN 1 ELSE 0),
              !.wrap_calls = @ + (IF seq + nfr >= 65536 THEN 1 ELSE 0),
              !.padded_calls = @ + (IF \E k \in 1..nfr : Len(e.frames[k]) = e.ctx.min /\ e.ctx.min > 24 THEN 1 ELSE 0),
              !.roundtrips = @ + (IF Has(e, "decoded") /\ InC01Domain(e.batch, e.ctx) THEN 1 ELSE 0)]

Step ==
    /\ l <= Len(Log)
    /\ l' = l + 1
    /\ LET e == Ev IN
       CASE e.e = "begin" ->
              /\ ep' = e.id /\ live' = TRUE /\ ncalls' = 0
              /\ UNCHANGED << dev, stream, seq, mon, cnt >>
         [] e.e = "crash" ->
              /\ Report(IF live THEN CrashFails(e) ELSE {})
              /\ live' = FALSE
              /\ UNCHANGED << ep, dev, stream, seq, mon, ncalls, cnt >>
         [] e.e # "begin" /\ e.e # "crash" /\ ~live -> UNCHANGED << ep, live, dev, stream, seq, mon, ncalls, cnt >>
         [] live /\ e.e = "enc.init" ->            \* fresh encoder, ids set, optionally warmed up to a counter
              /\ dev' = e.dev /\ stream' = e.stream /\ seq' = e.seq /\ mon' = e.seq
              /\ UNCHANGED << ep, live, ncalls, cnt >>
         [] live /\ e.e \in {"enc.setDev", "enc.setStream", "enc.restart"} ->
              LET d  == IF e.e = "enc.setDev" THEN e.v ELSE dev
                  s  == IF e.e = "enc.setStream" THEN e.v ELSE stream
                  ok == e.dev = d /\ e.stream = s /\ e.seq = 0
                  fails == IF ok THEN {} ELSE {"C09", "NC"}
              IN /\ Report(fails)
                 /\ live' = (fails = {})
                 /\ dev' = d /\ stream' = s /\ seq' = 0 /\ mon' = 0
                 /\ UNCHANGED << ep, ncalls, cnt >>
         [] live /\ e.e = "enc.recopy" ->           \* the encoder replaced by a copy of itself: nothing a user can see changes
              /\ Report(IF e.dev = dev /\ e.stream = stream /\ e.seq = seq THEN {} ELSE {"NC"})
              /\ dev' = e.dev /\ stream' = e.stream /\ seq' = e.seq /\ mon' = IF e.seq = seq THEN mon ELSE e.seq
              /\ UNCHANGED << ep, live, ncalls, cnt >>
         [] live /\ e.e = "enc.encode" ->
              LET fails == EncodeFails(e) IN
              /\ Report(fails)
              /\ live' = (fails \subseteq {"NC"})          \* a pure nonconformance note does not end the episode
              /\ seq' = e.seq /\ mon' = LastSeq(e.frames, mon)
              /\ ncalls' = ncalls + 1 /\ cnt' = Bump(cnt, e)
              /\ UNCHANGED << ep, dev, stream >>
         [] OTHER ->
              /\ Report({"UNKNOWN-EVENT"})
              /\ UNCHANGED << ep, live, dev, stream, seq, mon, ncalls, cnt >>

Done == l > Len(Log) /\ UNCHANGED vars

Next == Step \/ Done

Spec == Init /\ [][Next]_vars

(* the whole log was consumed: checked by the driver from the DONE line *)
Consumed == (l = Len(Log) + 1) =>
                /\ \A k \in DOMAIN cnt : PrintT(<< "COUNT", k, cnt[k] >>)
                /\ PrintT(<< "DONE", Len(Log) >>)

=============================================================================
