----------------------------- MODULE Payloads -----------------------------
(* Typed payloads of ASAM CMP: which kind a (message type, payload type)    *)
(* pair denotes, when the inner structure of a payload is consistent with   *)
(* its size, which bus-error flags it carries, and where its variable-length *)
(* views (data, strings, stream ids, vendor data) lie.  Written from the     *)
(* protocol layout, offsets are 0-based byte offsets inside the payload.     *)
EXTENDS Bits

\* message types (CMP header byte 4)
MtData == 1   MtControl == 2   MtStatus == 3   MtVendor == 255

Kind(mt, pt) ==
    IF mt = MtData THEN
        CASE pt = 1 -> "can" [] pt = 2 -> "canfd" [] pt = 3 -> "lin"
          [] pt = 7 -> "analog" [] pt = 8 -> "eth" [] OTHER -> "generic"
    ELSE IF mt = MtStatus THEN
        CASE pt = 1 -> "cm" [] pt = 2 -> "if" [] OTHER -> "generic"
    ELSE "generic"

TypedKinds == {"can", "canfd", "lin", "analog", "eth", "cm", "if"}

HeaderSize(kind) ==
    CASE kind = "can" -> 16 [] kind = "canfd" -> 16 [] kind = "lin" -> 8
      [] kind = "analog" -> 16 [] kind = "eth" -> 6 [] kind = "cm" -> 26
      [] kind = "if" -> 36 [] OTHER -> 0

(* ---- length-prefixed walks -------------------------------------------- *)
(* capture-module status: after the 26 byte header five fields follow, each  *)
(* a big-endian 16 bit length and that many bytes: device description,       *)
(* serial number, hardware version, software version, vendor data.           *)
RECURSIVE CmWalk(_, _, _, _)
CmWalk(b, o, k, acc) ==
    IF k = 0 THEN [ok |-> TRUE, fields |-> acc, end |-> o]
    ELSE IF o + 2 > Len(b) THEN [ok |-> FALSE, fields |-> acc, end |-> o]
    ELSE LET n == U16(b, o) IN
         IF o + 2 + n > Len(b) THEN [ok |-> FALSE, fields |-> acc, end |-> o]
         ELSE CmWalk(b, o + 2 + n, k - 1, Append(acc, [off |-> o + 2, len |-> n]))

CmFields(b) == CmWalk(b, 26, 5, << >>)

(* interface status: after the 36 byte header a 16 bit stream-id count, the  *)
(* ids, one padding byte when the count is odd, a 16 bit vendor-data length  *)
(* and the vendor data.                                                      *)
IfFields(b) ==
    IF Len(b) < 38 THEN [ok |-> FALSE, fields |-> << >>]
    ELSE LET cnt == U16(b, 36)
             pad == cnt % 2
             vo  == 38 + cnt + pad IN
         IF vo + 2 > Len(b) THEN [ok |-> FALSE, fields |-> << >>]
         ELSE LET vl == U16(b, vo) IN
              IF vo + 2 + vl > Len(b) THEN [ok |-> FALSE, fields |-> << >>]
              ELSE [ok |-> TRUE, fields |-> << [off |-> 38, len |-> cnt], [off |-> vo + 2, len |-> vl] >>]

(* ---- consistency of the inner structure with the size ------------------ *)
Consistent(kind, b) ==
    CASE kind \in {"can", "canfd"} -> Len(b) >= 16 /\ At(b, 15) <= Len(b) - 16
      [] kind = "lin"    -> Len(b) >= 8 /\ At(b, 7) <= Len(b) - 8
      [] kind = "eth"    -> Len(b) >= 6 /\ U16(b, 4) <= Len(b) - 6
      [] kind = "analog" -> Len(b) >= 16
      [] kind = "cm"     -> Len(b) >= 26 /\ CmFields(b).ok
      [] kind = "if"     -> Len(b) >= 36 /\ IfFields(b).ok
      [] kind = "tecmpLin" -> Len(b) >= 2 /\ At(b, 1) <= Len(b) - 2       \* TECMP LIN data: protected id, data length, data
      [] OTHER -> TRUE

(* bus-error indication that makes a payload invalid (CAN, CAN-FD: flag      *)
(* bits 9..0 or a non-zero error position; Ethernet: flag bits 0,1,3,4,5)    *)
HasBusError(kind, b) ==
    CASE kind \in {"can", "canfd"} ->
            Len(b) >= 16 /\ (((U16(b, 0) % 1024) # 0) \/ (U16(b, 12) # 0))
      [] kind = "eth" ->
            Len(b) >= 6 /\ LET f == At(b, 1) IN
               (f % 4 # 0) \/ ((f \div 8) % 8 # 0)
      [] OTHER -> FALSE

(* values of enumerated header fields outside their range *)
BadEnum(kind, b) ==
    CASE kind = "analog" -> Len(b) >= 16 /\ (At(b, 1) % 4) > 1       \* sample datatype 0 = int16, 1 = int32
      [] kind = "if"     -> Len(b) >= 36 /\ At(b, 29) > 2             \* interface status 0..2
      [] OTHER -> FALSE

(* The specification's validity verdict for a typed payload.                 *)
ValidPayload(kind, b) ==
    IF kind \in TypedKinds
    THEN Consistent(kind, b) /\ ~HasBusError(kind, b) /\ ~BadEnum(kind, b)
    ELSE TRUE

(* What the properties pin down (C04): inconsistent or bus-error => invalid;  *)
(* consistent, error-free and enums in range => valid.                        *)
MustBeInvalid(kind, b) == kind \in TypedKinds /\ (~Consistent(kind, b) \/ HasBusError(kind, b))
MustBeValid(kind, b)   == kind \in TypedKinds => ValidPayload(kind, b) /\
                             (kind = "lin" => U16(b, 0) % 256 = 0)   \* LIN error flags: not pinned down

(* ---- variable-length views ------------------------------------------- *)
AnalogSampleSize(b) == IF At(b, 1) % 4 = 0 THEN 2 ELSE 4

Views(kind, b) ==
    CASE kind \in {"can", "canfd"} -> << [name |-> "data", off |-> 16, len |-> At(b, 15)] >>
      [] kind = "lin"    -> << [name |-> "data", off |-> 8, len |-> At(b, 7)] >>
      [] kind = "eth"    -> << [name |-> "data", off |-> 6, len |-> U16(b, 4)] >>
      [] kind = "analog" -> LET ss == AnalogSampleSize(b) IN
                            << [name |-> "data", off |-> 16, len |-> ((Len(b) - 16) \div ss) * ss] >>
      [] kind = "cm"     -> LET w == CmFields(b).fields IN
                            [i \in 1..Len(w) |-> [name |-> <<"desc", "serial", "hw", "sw", "vendor">>[i],
                                                   off |-> w[i].off, len |-> w[i].len]]
      [] kind = "if"     -> LET w == IfFields(b).fields IN
                            [i \in 1..Len(w) |-> [name |-> <<"streams", "vendor">>[i],
                                                   off |-> w[i].off, len |-> w[i].len]]
      [] OTHER -> << >>

InBounds(kind, b) ==
    /\ Len(b) >= HeaderSize(kind)
    /\ Consistent(kind, b)
    /\ \A i \in 1..Len(Views(kind, b)) : Views(kind, b)[i].off + Views(kind, b)[i].len <= Len(b)

(* a string field's value: its bytes up to the first NUL *)
RECURSIVE UpToNul(_, _)
UpToNul(s, i) == IF i > Len(s) \/ s[i] = 0 THEN SubSeq(s, 1, i - 1) ELSE UpToNul(s, i + 1)
CString(b, v) == UpToNul(Slice(b, v.off, v.len), 1)

(* ---- builders ---------------------------------------------------------- *)
DlcCode(n) ==
    IF n <= 8 THEN n
    ELSE CASE n = 12 -> 9 [] n = 16 -> 10 [] n = 20 -> 11 [] n = 24 -> 12
           [] n = 32 -> 13 [] n = 48 -> 14 [] n = 64 -> 15 [] OTHER -> 0
HasDlcCode(n) == n <= 8 \/ n \in {12, 16, 20, 24, 32, 48, 64}

(* a string rendered as a length-prefixed field: NUL terminated, zero padded *)
(* to an even length                                                         *)
StrField(s) == LET n == Len(s) + 1  m == n + (n % 2) IN
               BE16(m) \o s \o Zeros(m - Len(s))

RenderData(kind, hdr, data) ==          \* hdr: the object's header bytes before the call
    CASE kind \in {"can", "canfd"} ->
            SubSeq(hdr, 1, 14) \o << DlcCode(Len(data)), Len(data) >> \o data
      [] kind = "lin"    -> SubSeq(hdr, 1, 7) \o << Len(data) >> \o data
      [] kind = "eth"    -> SubSeq(hdr, 1, 4) \o BE16(Len(data)) \o data
      [] kind = "analog" -> SubSeq(hdr, 1, 16) \o data
      [] kind = "tecmpLin" -> SubSeq(hdr, 1, 1) \o << Len(data) >> \o data

RenderCm(hdr, desc, serial, hw, sw, vendor) ==
    SubSeq(hdr, 1, 26) \o StrField(desc) \o StrField(serial) \o StrField(hw) \o StrField(sw)
        \o BE16(Len(vendor)) \o vendor

RenderIf(hdr, ids, vendor) ==
    SubSeq(hdr, 1, 36) \o BE16(Len(ids)) \o ids \o Zeros(Len(ids) % 2) \o BE16(Len(vendor)) \o vendor

=============================================================================
