------------------------------ MODULE TraceDec ------------------------------
(* Judge for recorded executions of the real Decoder.  One event per decode   *)
(* call: the bytes fed, the packets returned, the private pending table read  *)
(* through the verification hook, optionally the packets a solo decoder of    *)
(* the frame's endpoint returned, and annotations of the case generator       *)
(* (what the senders sent, what C05 expects this call to deliver).  The       *)
(* specification state and the ghosts live in one record st, so that the      *)
(* save / restore events of tree-shaped replays are plain copies.             *)
EXTENDS DecProps, Tecmp, TLC, Json, IOUtils

Log == ndJsonDeserialize(IOEnv.TRACE)

VARIABLES l, ep, live, st, slots, cnt
vars == << l, ep, live, st, slots, cnt >>

D == INSTANCE Decoder WITH TecmpDecode <- TecmpDecode

St0 == [pending |-> D!EmptyPending,      \* specification state of the decoder
        runs    |-> [x \in {} |-> NoRun], \* ghost: clean runs, from the frames alone
        sent    |-> {}]                    \* ghost: messages the senders have sent (declared by the case)

Cnt0 == [rechecked |-> 0, tecmp_converted |-> 0, tecmp_rejected |-> 0, decodes |-> 0, delivered |-> 0, reassembled |-> 0, reassembled3 |-> 0, wraps |-> 0,
         c04_frames |-> 0, c05_expect |-> 0, faulted_delivered |-> 0, rejected_segments |-> 0,
         pending_nonempty |-> 0, solo_compared |-> 0, tecmp_or_short |-> 0]

Init == l = 1 /\ ep = "" /\ live = FALSE /\ st = St0 /\ slots = << >> /\ cnt = Cnt0

Has(r, f) == f \in DOMAIN r
Report(fails) == IF fails = {} THEN TRUE ELSE PrintT(<< "FAIL", l, ep, fails >>)

(* ---- projections of the pending table ---------------------------------------- *)
(* hook entry: dev, st, seg, ver, mt, cur, buf (first segment's message header, whose length field the  *)
(* implementation keeps updating, followed by the payload bytes collected so far)                       *)
From17(b) == IF Len(b) >= 17 THEN SubSeq(b, 17, Len(b)) ELSE << >>          \* an entry may be observed with any buffer
ObsPend(p) == [dev |-> p.dev, st |-> p.st, seg |-> p.seg, ver |-> p.ver, mt |-> p.mt, cur |-> p.cur,
               h14 |-> SubSeq(p.buf, 1, Min(14, Len(p.buf))), pl |-> From17(p.buf)]
SpecPend(e, p) == [dev |-> e[1], st |-> e[2], seg |-> p.seg, ver |-> p.ver, mt |-> p.mt, cur |-> p.cur,
                   h14 |-> SubSeq(p.hdr, 1, 14), pl |-> p.buf]
ObsPendSet(pend) == {ObsPend(pend[x]) : x \in 1..Len(pend)}
SpecPendSet(pending) == {SpecPend(e, pending[e]) : e \in DOMAIN pending}

(* specification state rebuilt from the observed table (resynchronisation after a mismatch) *)
FromObs(pend) ==
    LET eps == {<< pend[x].dev, pend[x].st >> : x \in 1..Len(pend)} IN
    [e \in eps |-> LET p == CHOOSE q \in {pend[x] : x \in 1..Len(pend)} : q.dev = e[1] /\ q.st = e[2] IN
                   [open |-> TRUE, hdr |-> SubSeq(p.buf, 1, Min(16, Len(p.buf))) \o Zeros(16 - Min(16, Len(p.buf))), buf |-> From17(p.buf),
                    seg |-> p.seg, ver |-> p.ver, mt |-> p.mt, cur |-> p.cur]]

(* ---- monitors of one decode event ------------------------------------------ *)
DecodeFails0(e) ==
    LET b     == e.in
        out   == e.out
        exp   == D!Decode(st.pending, b)
        g     == GhostStep(st.runs, b)
        cmp   == IsCmp(b)
        meta  == IF Has(e, "meta") THEN e.meta ELSE [none |-> TRUE]
        sent2 == IF Has(meta, "sent") THEN st.sent \cup {meta.sent[x] : x \in 1..Len(meta.sent)} ELSE st.sent
        myEp  == IF cmp THEN EpOf(b) ELSE << 70000, 70000 >>
        pendEps == {<< e.pend[x].dev, e.pend[x].st >> : x \in 1..Len(e.pend)}
    IN
        (IF ~OutputBound(b, out) THEN {"C02"} ELSE {})
   \cup (IF InC04Domain(b) /\ ~DecodedMatchesWire(b, out) THEN {"C04"} ELSE {})
   \cup (IF Has(meta, "deliver") /\ meta.deliver # << >> /\
            ~(LET want == meta.deliver[1] IN
              /\ Len(out) = Len(want)
              /\ \A x \in 1..Len(want) : Delivered(out[x], myEp[1], myEp[2], want[x]) /\ out[x].valid)
         THEN {"C05"} ELSE {})
   \cup (IF Has(meta, "sent") /\
            ~(\A x \in 1..Len(out) : \E m \in sent2 : m.ep = myEp /\ Delivered(out[x], myEp[1], myEp[2], m.p))
         THEN {"C06"} ELSE {})                                          \* NoCorruption
   \cup (IF cmp /\ g.done /\ ~(\E x \in 1..Len(out) : RunDelivered(out[x], b, g.w))
         THEN {"C06", "C05"} ELSE {})                                   \* Recovery / delivery at the last segment
   \cup (IF Has(e, "pend") /\ pendEps # DOMAIN g.runs THEN {"C17"} ELSE {})
   \cup (IF Has(e, "pend") /\ Len(e.pend) # Cardinality(pendEps) THEN {"C17"} ELSE {})
   \cup (IF Has(e, "pend") /\ \E x \in 1..Len(e.pend) :
               LET q == << e.pend[x].dev, e.pend[x].st >> IN q \in DOMAIN g.runs /\ Len(e.pend[x].buf) > g.runs[q].bytes
         THEN {"C17"} ELSE {})
   \cup (IF Has(e, "solo") /\ cmp /\ out # e.solo THEN {"C18"} ELSE {})
   \cup (IF cmp /\ \E x \in 1..Len(out) : << out[x].dev, out[x].st >> # myEp THEN {"C18"} ELSE {})
   \cup (IF Has(e, "pendBefore") /\ ~cmp /\ e.pend # e.pendBefore THEN {"C18", "C17"} ELSE {})
   \cup (IF ~cmp /\ Len(b) >= 8 /\ ~TecmpOK(b, out) THEN {"C15"} ELSE {})          \* TECMP-routed buffers
   \cup (IF ~cmp /\ Len(b) < 8 /\ out # << >> THEN {"C15", "C18"} ELSE {})
   \cup (IF out # exp.out THEN {"NC"} ELSE {})
   \cup (IF Has(e, "pend") /\ ObsPendSet(e.pend) # SpecPendSet(exp.pend) THEN {"NC"} ELSE {})

(* a null packet pointer in the result: nothing else can be asked of it *)
DecodeFails(e) == IF \E x \in 1..Len(e.out) : "null" \in DOMAIN e.out[x] THEN {"C02"} ELSE DecodeFails0(e)

After(e) ==
    LET b    == e.in
        g    == GhostStep(st.runs, b)
        meta == IF Has(e, "meta") THEN e.meta ELSE [none |-> TRUE]
    IN [pending |-> IF Has(e, "pend") THEN FromObs(e.pend) ELSE D!Decode(st.pending, b).pend,
        runs    |-> g.runs,
        sent    |-> IF Has(meta, "sent") THEN st.sent \cup {meta.sent[x] : x \in 1..Len(meta.sent)} ELSE st.sent]

Bump(c, e) ==
    LET b == e.in  g == GhostStep(st.runs, b)  meta == IF Has(e, "meta") THEN e.meta ELSE [none |-> TRUE] IN
    [c EXCEPT !.decodes = @ + 1,
              !.tecmp_converted = @ + (IF ~IsCmp(b) /\ Len(b) >= 8 /\ Len(e.out) > 0 THEN 1 ELSE 0),
              !.tecmp_rejected = @ + (IF ~IsCmp(b) /\ Len(b) >= 28 /\ Len(e.out) = 0 THEN 1 ELSE 0),
              !.delivered = @ + Len(e.out),
              !.reassembled = @ + (IF g.done THEN 1 ELSE 0),
              !.reassembled3 = @ + (IF g.done /\ IsCmp(b) /\ RunOf(st.runs, EpOf(b)).on /\ RunOf(st.runs, EpOf(b)).bytes > 16 + Len(RunOf(st.runs, EpOf(b)).pl) THEN 1 ELSE 0),
              !.wraps = @ + (IF IsCmp(b) /\ U16(b, 6) = 0 /\ g.after.on THEN 1 ELSE 0),
              !.c04_frames = @ + (IF InC04Domain(b) /\ Len(b) >= 24 THEN 1 ELSE 0),
              !.c05_expect = @ + (IF Has(meta, "deliver") /\ meta.deliver # << >> THEN 1 ELSE 0),
              !.faulted_delivered = @ + (IF Has(meta, "fault") /\ Len(e.out) > 0 /\ Cardinality(st.sent) > 0 /\ Has(meta, "deliver") /\ meta.deliver = << >> THEN 1 ELSE 0),
              !.rejected_segments = @ + (IF IsCmp(b) /\ RunOf(st.runs, EpOf(b)).on /\ ~g.done /\ ~g.after.on THEN 1 ELSE 0),
              !.pending_nonempty = @ + (IF Has(e, "pend") /\ Len(e.pend) > 0 THEN 1 ELSE 0),
              !.solo_compared = @ + (IF Has(e, "solo") /\ IsCmp(b) THEN 1 ELSE 0),
              !.tecmp_or_short = @ + (IF ~IsCmp(b) THEN 1 ELSE 0)]

Unch == UNCHANGED << ep, live, st, slots, cnt >>

Step ==
    /\ l <= Len(Log)
    /\ l' = l + 1
    /\ LET e == Log[l] IN
       CASE e.e = "begin" ->
              /\ ep' = e.id /\ live' = TRUE /\ st' = St0 /\ slots' = [k \in 0..40 |-> St0]
              /\ UNCHANGED cnt
         [] e.e = "crash" ->
              /\ Report(IF live THEN {"CRASH", "C02"} \cup
                           (IF Has(e, "during") /\ Has(e.during, "in") /\ Len(e.during.in) >= 8 /\ e.during.in[1] = 0 THEN {"C15"} ELSE {})
                        ELSE {})
              /\ live' = FALSE
              /\ UNCHANGED << ep, st, slots, cnt >>
         [] e.e \notin {"begin", "crash"} /\ ~live -> Unch
         [] live /\ e.e = "dec.new" ->
              /\ st' = St0 /\ slots' = [slots EXCEPT ![0] = St0]
              /\ Report(IF Has(e, "pend") /\ e.pend # << >> THEN {"C17", "NC"} ELSE {})
              /\ UNCHANGED << ep, live, cnt >>
         [] live /\ e.e = "dec.sent" ->
              /\ st' = [st EXCEPT !.sent = @ \cup {e.msgs[x] : x \in 1..Len(e.msgs)}]
              /\ slots' = IF Has(e, "save") THEN [slots EXCEPT ![e.save] = st'] ELSE slots
              /\ UNCHANGED << ep, live, cnt >>
         [] live /\ e.e = "dec.tdecode" ->            \* TECMP::Decoder::Decode called directly: no routing, no state
              /\ Report(IF \E x \in 1..Len(e.out) : "null" \in DOMAIN e.out[x] THEN {"C02"}
                        ELSE (IF ~TecmpOK(e.in, e.out) THEN {"C15"} ELSE {}) \cup (IF e.out # TecmpDecode(e.in) THEN {"NC"} ELSE {})
                             \cup (IF ~OutputBound(e.in, e.out) THEN {"C02"} ELSE {}))
              /\ cnt' = [cnt EXCEPT !.tecmp_converted = @ + (IF Len(e.out) > 0 THEN 1 ELSE 0)]
              /\ UNCHANGED << ep, live, st, slots >>
         [] live /\ e.e = "dec.note" -> Unch            \* an operation of the case that did not reach the decoder
         [] live /\ e.e = "dec.restore" ->
              /\ st' = slots[e.slot]
              /\ UNCHANGED << ep, live, slots, cnt >>
         [] live /\ e.e = "dec.decode" ->
              LET fails == DecodeFails(e) IN
              /\ Report(fails)
              /\ live' = TRUE               \* the state is resynchronised from the observation: go on
              /\ st' = After(e)
              /\ slots' = IF Has(e, "save") THEN [slots EXCEPT ![e.save] = st'] ELSE slots
              /\ cnt' = Bump(cnt, e)
              /\ UNCHANGED ep
         [] live /\ e.e = "dec.recheck" ->
              (* the decoder and its copies are gone, the input buffers were unmapped long ago: the packets handed *)
              (* out earlier must be non-null and read exactly as they did when they were returned                *)
              /\ Report(IF e.orig # e.now \/ \E x \in 1..Len(e.now) : "null" \in DOMAIN e.now[x] THEN {"C02"} ELSE {})
              /\ cnt' = [cnt EXCEPT !.rechecked = @ + Len(e.now)]
              /\ UNCHANGED << ep, live, st, slots >>
         [] OTHER ->
              /\ Report({"UNKNOWN-EVENT"})
              /\ Unch

Done == l > Len(Log) /\ UNCHANGED vars
Next == Step \/ Done
Spec == Init /\ [][Next]_vars

Consumed == (l = Len(Log) + 1) =>
                /\ \A k \in DOMAIN cnt : PrintT(<< "COUNT", k, cnt[k] >>)
                /\ PrintT(<< "DONE", Len(Log) >>)

=============================================================================
