------------------------------ MODULE TraceSys ------------------------------
(* Judge for recorded executions of the composed system (MC_Sys): real        *)
(* encoders, a lossy link, the real decoder and the real Status object fed    *)
(* with every decoded packet.  The specification runs in lock step:           *)
(*   sys.emit     Encoder!Encode on the logged batch        (frames differ: NC) *)
(*   sys.deliver  Decoder!Decode on the frame that was fed  (packets differ: NC)*)
(*                the tracker must equal the latest-message map of the packets *)
(*                the real decoder has delivered so far                  (C16) *)
(*                and the map of the specification's own run             (SYS) *)
(* C16 is the listed property judged here (the tracker under real traffic);   *)
(* NC / SYS are deviations from the specification that the encoder and        *)
(* decoder checks judge against their own properties.                         *)
(*   sys.tecmp    a TECMP status message into the same decoder: converted by   *)
(*                Tecmp!TecmpDecode, reassembly table untouched, the converted *)
(*                packets update the tracker like any other                    *)
EXTENDS Encoder, Status, Tecmp, TLC, Json, IOUtils

Log == ndJsonDeserialize(IOEnv.TRACE)

D == INSTANCE Decoder WITH TecmpDecode <- TecmpDecode

VARIABLES l, ep, live, s, slots, cnt
vars == << l, ep, live, s, slots, cnt >>

EmptyFn == [x \in {} |-> 0]
GetOr(f, d, dflt) == IF d \in DOMAIN f THEN f[d] ELSE dflt
SetFn(f, d, v) == [x \in DOMAIN f \cup {d} |-> IF x = d THEN v ELSE f[x]]

(* specification state: counters and link queues per device, reassembly table, the tracker of the specification's run *)
(* (smap) and the tracker that follows the packets the real decoder delivered (omap)                                  *)
S0 == [seq |-> EmptyFn, q |-> EmptyFn, pend |-> D!EmptyPending, smap |-> EmptyMap, omap |-> EmptyMap]
Cnt0 == [ops |-> 0, emits |-> 0, frames |-> 0, delivers |-> 0, losses |-> 0, packets |-> 0, tracker_changes |-> 0, removals |-> 0, tecmp_messages |-> 0]
Init == l = 1 /\ ep = "" /\ live = FALSE /\ s = S0 /\ slots = << >> /\ cnt = Cnt0

Has(r, f) == f \in DOMAIN r
Report(fails) == IF fails = {} THEN TRUE ELSE PrintT(<< "FAIL", l, ep, fails >>)

PD(p) == [dev |-> p.dev, st |-> p.st, ver |-> p.ver, mt |-> p.mt, pt |-> p.pt, ts |-> p.ts, ifid |-> p.ifid, vid |-> p.vid,
          fl |-> p.fl, len |-> p.len, pl |-> p.pl, valid |-> p.valid]
Proj(p) == [dev |-> p.dev, mt |-> p.mt, pt |-> p.pt, ts |-> p.ts, vid |-> p.vid, pl |-> p.pl]
ProjMap(m) == [d \in DOMAIN m |-> [pkt |-> Proj(m[d].pkt), ifs |-> [i \in DOMAIN m[d].ifs |-> Proj(m[d].ifs[i])]]]

Usable(p) == ~IsIf(p) \/ Len(p.pl) >= 4
RECURSIVE FoldUpd(_, _, _)
FoldUpd(m, ps, k) == IF k > Len(ps) THEN m ELSE FoldUpd(IF Usable(ps[k]) THEN MapUpdate(m, ps[k]) ELSE m, ps, k + 1)

(* what one event does to the specification state, and what it reports besides the tracker comparison *)
After(e) ==
    CASE e.e = "st.new" -> [s2 |-> S0, f |-> {}]
      [] e.e = "st.restore" -> [s2 |-> slots[e.slot], f |-> {}]
      [] e.e = "st.removeDev" ->
            [s2 |-> [s EXCEPT !.smap = MapRemoveDev(@, e.dev), !.omap = MapRemoveDev(@, e.dev)], f |-> {}]
      [] e.e = "sys.emit" ->
            LET r   == Encode(e.dev, e.stream, GetOr(s.seq, e.dev, 0), e.batch, [min |-> e.min, max |-> e.max])
                n   == Len(e.frames)
                ctr == IF n > 0 /\ Len(e.frames[n]) >= 8 THEN U16(e.frames[n], 6) ELSE r.seq
            IN [s2 |-> [s EXCEPT !.seq = SetFn(@, e.dev, ctr), !.q = SetFn(@, e.dev, GetOr(s.q, e.dev, << >>) \o e.frames)],
                f  |-> IF r.frames # e.frames THEN {"NC"} ELSE {}]
      [] e.e = "sys.lose" ->
            LET qd == GetOr(s.q, e.dev, << >>) IN
            [s2 |-> [s EXCEPT !.q = SetFn(@, e.dev, IF qd = << >> THEN qd ELSE SubSeq(qd, 2, Len(qd)))],
             f  |-> IF e.have # (qd # << >>) \/ (e.have /\ e.frame # qd[1]) THEN {"NC"} ELSE {}]
      [] e.e = "sys.deliver" ->
            LET qd == GetOr(s.q, e.dev, << >>)
                r  == IF e.have THEN D!Decode(s.pend, e.frame) ELSE [pend |-> s.pend, out |-> << >>]
                same == /\ Len(r.out) = Len(e.out)
                        /\ \A k \in 1..Len(r.out) : PD(r.out[k]) = PD(e.out[k])
                bad == \E k \in 1..Len(e.out) : ~Usable(e.out[k])
            IN [s2 |-> [s EXCEPT !.q = SetFn(@, e.dev, IF qd = << >> THEN qd ELSE SubSeq(qd, 2, Len(qd))),
                                 !.pend = r.pend,
                                 !.smap = FoldUpd(@, r.out, 1),
                                 !.omap = FoldUpd(@, e.out, 1)],
                f  |-> IF ~same \/ bad \/ e.have # (qd # << >>) \/ (e.have /\ e.frame # qd[1]) THEN {"NC"} ELSE {}]

      [] e.e = "sys.tecmp" ->
            LET r  == D!Decode(s.pend, e.frame)
                same == /\ Len(r.out) = Len(e.out)
                        /\ \A k \in 1..Len(r.out) : PD(r.out[k]) = PD(e.out[k])
                bad == \E k \in 1..Len(e.out) : ~Usable(e.out[k])
            IN [s2 |-> [s EXCEPT !.pend = r.pend, !.smap = FoldUpd(@, r.out, 1), !.omap = FoldUpd(@, e.out, 1)],
                f  |-> IF ~same \/ bad \/ r.pend # s.pend THEN {"NC"} ELSE {}]

Ops == {"st.new", "st.restore", "st.removeDev", "sys.emit", "sys.lose", "sys.deliver", "sys.tecmp"}

Step ==
    /\ l <= Len(Log)
    /\ l' = l + 1
    /\ LET e == Log[l] IN
       CASE e.e = "begin" ->
              /\ ep' = e.id /\ live' = TRUE /\ s' = S0 /\ slots' = [k \in 0..64 |-> S0] /\ UNCHANGED cnt
         [] e.e = "crash" ->
              /\ Report(IF live THEN {"CRASH", "C16"} ELSE {})
              /\ live' = FALSE /\ UNCHANGED << ep, s, slots, cnt >>
         [] e.e \notin {"begin", "crash"} /\ ~live -> UNCHANGED << ep, live, s, slots, cnt >>
         [] live /\ e.e \in Ops ->
              LET a   == After(e)
                  v   == ObsVec(e)
                  c16 == IF ~VecWellFormed(v) \/ VecAsMap(v) # a.s2.omap \/ ~LookupsOK(e) THEN {"C16"} ELSE {}
                  sys == IF VecWellFormed(v) /\ ProjMap(VecAsMap(v)) # ProjMap(a.s2.smap) THEN {"SYS"} ELSE {}
                  s3  == [a.s2 EXCEPT !.omap = IF c16 = {} THEN @ ELSE IF VecWellFormed(v) THEN VecAsMap(v) ELSE @,
                                      !.smap = IF sys = {} THEN @ ELSE VecAsMap(v)]
              IN
              /\ Report(a.f \cup c16 \cup sys)
              /\ s' = s3
              /\ slots' = IF Has(e, "save") THEN [slots EXCEPT ![e.save] = s3] ELSE slots
              /\ cnt' = [cnt EXCEPT !.ops = @ + 1,
                                    !.emits = @ + (IF e.e = "sys.emit" THEN 1 ELSE 0),
                                    !.frames = @ + (IF e.e = "sys.emit" THEN Len(e.frames) ELSE 0),
                                    !.delivers = @ + (IF e.e = "sys.deliver" THEN 1 ELSE 0),
                                    !.losses = @ + (IF e.e = "sys.lose" THEN 1 ELSE 0),
                                    !.packets = @ + (IF e.e \in {"sys.deliver", "sys.tecmp"} THEN Len(e.out) ELSE 0),
                                    !.tecmp_messages = @ + (IF e.e = "sys.tecmp" THEN 1 ELSE 0),
                                    !.tracker_changes = @ + (IF e.e \in {"sys.deliver", "sys.tecmp"} /\ a.s2.omap # s.omap THEN 1 ELSE 0),
                                    !.removals = @ + (IF e.e = "st.removeDev" THEN 1 ELSE 0)]
              /\ UNCHANGED << ep, live >>
         [] OTHER -> Report({"UNKNOWN-EVENT"}) /\ UNCHANGED << ep, live, s, slots, cnt >>

Done == l > Len(Log) /\ UNCHANGED vars
Next == Step \/ Done
Spec == Init /\ [][Next]_vars
Consumed == (l = Len(Log) + 1) =>
                /\ \A k \in DOMAIN cnt : PrintT(<< "COUNT", k, cnt[k] >>)
                /\ PrintT(<< "DONE", Len(Log) >>)
=============================================================================
