---------------------------- MODULE MC_Builders ----------------------------
(* C13 at design level: for every payload kind and every small argument, the  *)
(* bytes the builder specification renders are consistent by the validity      *)
(* rules of spec/Payloads.tla, their variable-length views give the arguments  *)
(* back, strings are NUL terminated and padded to even length, the stream-id   *)
(* list is padded to even length, and the result does not depend on what the   *)
(* object held before (second build on the result of a first one).  Every      *)
(* enumerated case is replayed on the real builders.                           *)
EXTENDS Payloads, TLC, Json

CONSTANTS DataLens, StrLens, IdLens, VendorLens, DumpCases

VARIABLES pc, kind, first, second, raw1, raw2, hist
vars == << pc, kind, first, second, raw1, raw2, hist >>
View == << pc, kind, first, second, raw1, raw2 >>

Kinds == {"can", "canfd", "lin", "eth", "analog", "cm", "if"}
Hdr0(k) == Zeros(HeaderSize(k))

B(n, v) == [j \in 1..n |-> 1 + ((v + j) % 250)]          \* no NUL bytes

Args(k) ==
    IF k \in {"can", "canfd", "lin", "eth", "analog"} THEN {[data |-> B(n, 7)] : n \in DataLens}
    ELSE IF k = "cm" THEN {[desc |-> B(a, 1), serial |-> B(b, 2), hw |-> B(1, 3), sw |-> B(a, 4), vendor |-> B(c, 5)] :
                               a \in StrLens, b \in StrLens, c \in VendorLens}
    ELSE {[ids |-> B(a, 1), vendor |-> B(c, 5)] : a \in IdLens, c \in VendorLens}

Render(k, hdr, a) ==
    IF k \in {"can", "canfd", "lin", "eth", "analog"} THEN RenderData(k, hdr, a.data)
    ELSE IF k = "cm" THEN RenderCm(hdr, a.desc, a.serial, a.hw, a.sw, a.vendor)
    ELSE RenderIf(hdr, a.ids, a.vendor)

Init == pc = "pick" /\ kind \in Kinds /\ first = << >> /\ second = << >> /\ raw1 = << >> /\ raw2 = << >> /\ hist = << >>

Pick(a1, a2) ==
    LET r1 == Render(kind, Hdr0(kind), a1)
        r2 == Render(kind, r1, a2)
    IN /\ pc' = "done" /\ first' = a1 /\ second' = a2 /\ raw1' = r1 /\ raw2' = r2
       /\ hist' = << [op |-> "new", cls |-> kind], [op |-> "setData"] @@ a1, [op |-> "setData"] @@ a2 >>
       /\ UNCHANGED kind

Next == pc = "pick" /\ \E a1 \in Args(kind), a2 \in Args(kind) : Pick(a1, a2)
Spec == Init /\ [][Next]_vars

GivesBack(k, r, a) ==
    LET v == Views(k, r) IN
    IF k \in {"can", "canfd", "lin", "eth"} THEN Slice(r, v[1].off, v[1].len) = a.data
    ELSE IF k = "analog" THEN Slice(r, v[1].off, v[1].len) = SubSeq(a.data, 1, 2 * (Len(a.data) \div 2))
    ELSE IF k = "cm" THEN
        /\ Len(v) = 5
        /\ CString(r, v[1]) = a.desc /\ CString(r, v[2]) = a.serial /\ CString(r, v[3]) = a.hw /\ CString(r, v[4]) = a.sw
        /\ Slice(r, v[5].off, v[5].len) = a.vendor
        /\ \A x \in 1..4 : v[x].len % 2 = 0 /\ At(r, v[x].off + v[x].len - 1) = 0            \* even, NUL terminated
    ELSE /\ Len(v) = 2
         /\ Slice(r, v[1].off, v[1].len) = a.ids /\ Slice(r, v[2].off, v[2].len) = a.vendor
         /\ (v[2].off - 2 - 38) % 2 = 0                                                        \* id list padded to even

InvC13 == pc = "done" =>
    /\ ValidPayload(kind, raw1) /\ ValidPayload(kind, raw2)
    /\ InBounds(kind, raw1) /\ InBounds(kind, raw2)
    /\ GivesBack(kind, raw1, first) /\ GivesBack(kind, raw2, second)
    /\ raw2 = Render(kind, Hdr0(kind), second)                 \* only the final logical content matters
    /\ (kind \in {"can", "canfd"} /\ HasDlcCode(Len(second.data)) => At(raw2, 14) = DlcCode(Len(second.data)))

DumpEdges == (DumpCases /\ pc' = "done") => PrintT(<< "CASE", ToJson(hist') >>)
=============================================================================
