------------------------------ MODULE MC_Tecmp ------------------------------
(* C15 at design level: TECMP frames with the message type over all 256       *)
(* values, the data type over all 65536 values (for data messages), CAN / LIN *)
(* data lengths 0..64 with consistent and inconsistent inner lengths,         *)
(* bus-status messages of 0..MaxEntries entries, capture-module status of     *)
(* every size around its structure, declared payload lengths consistent and   *)
(* not.  Invariants: unsupported kinds and lengths that do not fit yield no   *)
(* packet; supported, consistent messages yield packets carrying exactly the  *)
(* wire fields, one per bus-status entry; every converted payload is valid by *)
(* the ASAM rules of spec/Payloads.tla; at most one packet per 12 bytes.      *)
(* Every enumerated frame is a case for the real converter.                   *)
EXTENDS Tecmp, TLC, Json

CONSTANTS MaxEntries, DumpCases
VARIABLES pc, mode, frame, info, out, hist
vars == << pc, mode, frame, info, out, hist >>
View == << pc, mode, frame, info, out >>

B(n, v) == [j \in 1..n |-> (v + 5 * j) % 256]
Hdr(dev, mt, dt, plen) ==
    << 0, dev, 18, 52, 3, mt >> \o BE16(dt) \o << 0, 0, 0, 15 >> \o << 0, 0, 1, dev >> \o << 0, 0, 0, 97, 20, 181, 61, dev >>
       \o BE16(plen) \o << 0, 0 >>
Frame(dev, mt, dt, p) == Hdr(dev, mt, dt, Len(p)) \o p

Modes == {"msgtype", "datatype", "can", "lin", "bus", "cm", "plen", "statusdt"}

Init == pc = "pick" /\ mode \in Modes /\ frame = << >> /\ info = << >> /\ out = << >> /\ hist = << >>

Set(f, i) ==
    /\ pc' = "done" /\ frame' = f /\ info' = i /\ out' = TecmpDecode(f) /\ UNCHANGED mode
    (* the conversion is a function of the frame: the same frame again, on the same decoder, converts to the same packets *)
    /\ hist' = << [op |-> "new"], [op |-> "decode", in |-> f], [op |-> "decode", in |-> f] >>

BusId(e, m) == IF m = 0 THEN e ELSE e % m                \* interface id byte of bus-status entry e
CanP(arb, n, have, crc) == arb \o << n >> \o B(have, 40) \o crc

Next ==
    /\ pc = "pick"
    /\ \/ mode = "msgtype" /\ \E mt \in 0..255, dt \in {2, 3, 4, 8, 85, 65280} :
             Set(Frame(7, mt, dt, CanP(<< 0, 0, 3, 33 >>, 4, 4, << >>)), [mt |-> mt, dt |-> dt])
       \/ mode = "datatype" /\ \E dt \in 0..65535 :
             Set(Frame(8, 3, dt, CanP(<< 0, 0, 3, 33 >>, 2, 2, << >>)), [mt |-> 3, dt |-> dt])
       \/ mode = "can" /\ \E n \in 0..64, delta \in {0, 1, 2, 3, 5}, short \in {0, 1, 2}, dt \in {2, 3}, arb \in {<< 0, 0, 3, 33 >>, << 159, 255, 255, 254 >>} :
             (short <= n) /\ Set(Frame(9, 3, dt, CanP(arb, n, n - short, B(IF short = 0 THEN delta ELSE 0, 200))),
                                 [n |-> n, short |-> short, arb |-> arb, extra |-> IF short = 0 THEN delta ELSE 0])
       \/ mode = "can" /\ \E cut \in 0..5 :
             Set(Frame(9, 3, 2, SubSeq(CanP(<< 0, 0, 3, 33 >>, 0, 0, << >>), 1, cut) \o (IF cut = 0 THEN << >> ELSE << >>)),
                 [n |-> 0, short |-> IF cut < 5 THEN 1 ELSE 0, arb |-> << 0, 0, 3, 33 >>, extra |-> 0])
       \/ mode = "lin" /\ \E n \in (0..64) \cup {253, 254, 255}, short \in {0, 1, 2}, cs \in {0, 1}, pid \in {60, 255} :
             (short <= n) /\ Set(Frame(10, 3, 4, << pid, n >> \o B(n - short, 90) \o (IF short = 0 /\ cs = 1 THEN << 171 >> ELSE << >>)),
                                 [n |-> n, short |-> short, pid |-> pid, cs |-> IF short = 0 /\ cs = 1 THEN 171 ELSE 0])
       \/ mode = "bus" /\ \E k \in 0..MaxEntries, tail \in {0, 5, 11}, m \in {0, 1, 2} :   \* m > 0: entries repeat interface ids (mod m)
             Set(Frame(11, 2, 0, B(12, 1) \o FlattenSeq([e \in 1..k |-> << 0, 0, BusId(e, m), 16 >> \o << 0, 1, e, 2 >> \o << 0, 0, 0, e >>]) \o B(tail, 3)),
                 [k |-> k, m |-> m])
       \/ mode = "bus" /\ \E n \in 1..11 : Set(Frame(11, 2, 0, B(n, 1)), [k |-> 0, m |-> 0])
       \/ mode = "cm" /\ \E n \in 1..46, sv \in {<< 1, 97, 22, 225 >>, << 255, 255, 255, 255 >>, << 0, 0, 0, 0 >>}, vdl \in {24, 0, 5, 6, 23} :
             (* vdl: the declared vendor data length; the 36 byte structure is needed whatever it says (round8a-2) *)
             Set(Frame(12, 1, 0, SubSeq(<< 12, 1, 4, 0, 0, vdl, 0, 67 >> \o sv \o << 0, 20, 7, 10, 3, 3 >> \o B(28, 9), 1, n)),
                 [n |-> n, sv |-> sv])
       (* status messages do not use the data type field: whatever it holds (but the reserved 0xFF00), they convert (round7c-4) *)
       \/ mode = "statusdt" /\ \E dt \in {0, 1, 2, 255, 256, 511, 4660, 65279, 65281, 65535} :
             \/ Set(Frame(14, 1, dt, SubSeq(<< 12, 1, 4, 0, 0, 24, 0, 67, 0, 0, 1, 2, 0, 20, 7, 10, 3, 3 >> \o B(28, 9), 1, 36)), [mt |-> 1, dt |-> dt])
             \/ Set(Frame(14, 2, dt, B(12, 1) \o << 0, 0, 1, 16 >> \o << 0, 1, 1, 2 >> \o << 0, 0, 0, 1 >>), [mt |-> 2, dt |-> dt])
       \/ mode = "plen" /\ \E declared \in {0, 1, 8, 9, 10, 65535}, mt \in {1, 2, 3} :
             LET p == CanP(<< 0, 0, 3, 33 >>, 4, 4, << >>)      \* 9 payload bytes
                 f == Hdr(13, mt, 2, declared) \o p IN
             Set(f, [declared |-> declared, mt |-> mt])
       \/ mode = "plen" /\ \E cut \in 0..28 : Set(SubSeq(Frame(13, 3, 2, CanP(<< 0, 0, 3, 33 >>, 1, 1, << >>)), 1, cut), [declared |-> 6, mt |-> 3])

Spec == Init /\ [][Next]_vars

KindOfPkt(p) == Kind(p.mt, p.pt)

InvC15 == pc = "done" =>
    /\ 12 * Len(out) <= Len(frame)
    /\ \A x \in 1..Len(out) : ValidPayload(KindOfPkt(out[x]), out[x].pl) /\ out[x].dev = At(frame, 1) /\ out[x].ts = Slice(frame, 16, 8)
    /\ (mode \in {"msgtype", "datatype"} =>
           (Len(out) > 0 <=> (info.mt = 3 /\ info.dt \in {2, 3, 4}) \/ (info.mt = 1 /\ FALSE) \/ (info.mt = 2 /\ FALSE)))
    /\ (mode = "can" =>
           IF info.short > 0 THEN out = << >>
           ELSE /\ Len(out) = 1
                /\ Low29(Slice(out[1].pl, 4, 4)) = Low29(info.arb)
                /\ At(out[1].pl, 15) = info.n /\ Slice(out[1].pl, 16, info.n) = B(info.n, 40) /\ Len(out[1].pl) = 16 + info.n
                /\ out[1].ifid = Slice(frame, 12, 4))
    /\ (mode = "lin" =>
           IF info.short > 0 THEN out = << >>
           ELSE /\ Len(out) = 1
                /\ At(out[1].pl, 4) = info.pid % 64 /\ At(out[1].pl, 6) = info.cs
                /\ At(out[1].pl, 7) = info.n /\ Slice(out[1].pl, 8, info.n) = B(info.n, 90))
    /\ (mode = "bus" =>
           /\ Len(out) = info.k
           /\ \A e \in 1..info.k : /\ out[e].ifid = << 0, 0, BusId(e, info.m), 16 >> /\ Slice(out[e].pl, 0, 4) = << 0, 0, BusId(e, info.m), 16 >>
                                   /\ Slice(out[e].pl, 4, 4) = << 0, 1, e, 2 >> /\ Slice(out[e].pl, 20, 4) = << 0, 0, 0, e >>)
    /\ (mode = "cm" => (Len(out) = 1 <=> info.n >= 36))
    /\ (mode = "statusdt" => Len(out) = 1 /\ out[1].mt = 3 /\ out[1].pt = info.mt)
    /\ (mode = "plen" => (Len(out) > 0 => info.declared \in 1..9 /\ Len(frame) >= 28 + info.declared))

DumpEdges == (DumpCases /\ pc' = "done") => PrintT(<< "CASE", ToJson(hist') >>)
=============================================================================
