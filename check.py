#!/usr/bin/env python3
"""check.py <property> [--tier quick|thorough] [--replay path]

Decides one property of /verif/properties.jsonl for /repo's current working tree:
  1. TLC model-checks the bounded configuration(s) of the specification that carry the property as invariant;
  2. the same run dumps one concrete path per transition (edge dump): cases for the real code;
  3. a seeded generator adds cases at realistic sizes;
  4. harness/exec (built from the working tree, hooks on) runs the cases on the real objects and logs every call;
  5. TLC judges the log against the specification (spec/Trace*.tla) and evaluates the property monitors.
Exit 0: the property held on everything explored.  Exit 1 + "VIOLATION property=<id> replay=<path>": a violation
that known_findings.json does not list.  Exit 2: the machinery failed (never a VIOLATION line).
"""
import argparse
import json
import os
import sys
import time

sys.path.insert(0, os.path.dirname(os.path.abspath(__file__)))
from vlib import core  # noqa: E402
from vlib import props  # noqa: E402


def main():
    ap = argparse.ArgumentParser()
    ap.add_argument('pid', nargs='?')
    ap.add_argument('--setup', action='store_true')
    ap.add_argument('--tier', default=os.environ.get('VERIF_TIER', 'quick'), choices=['quick', 'thorough'])
    ap.add_argument('--replay')
    a = ap.parse_args()
    if a.setup:
        # build the executor variants from the files on disk and parse every specification once
        try:
            for v in ('plain', 'asan', 'tsan'):
                core.build(v)
            for prog in ('tests', 'example'):
                core.build_suite(prog)          # the recorded test suite / example (skipped by their stages if they do not build)
            # the parser unpacks its standard modules into java.io.tmpdir on every start: keep that inside the scratch area
            td = os.path.join(core.OUT, 'sany-tmp')
            os.makedirs(td, exist_ok=True)
            r = core.sh('cd %s && for m in *.tla; do JAVA_TOOL_OPTIONS=-Djava.io.tmpdir=%s tla-sany $m > /dev/null 2>&1 || echo "PARSE-FAIL $m"; done; rm -rf %s'
                        % (core.SPEC, td, td))
            print(r.stdout.strip() or 'setup ok')
            return 1 if 'PARSE-FAIL' in r.stdout else 0
        except core.MachineryError as e:
            print('MACHINERY-ERROR setup: %s' % e)
            return 2
    seed = int(os.environ.get('VERIF_SEED', '1') or 1)
    pid = a.pid
    if pid not in props.PROPS:
        print('unknown property %s' % pid)
        return 2
    t0 = time.time()
    try:
        if a.replay:
            return props.replay(pid, a.replay)
        return props.run(pid, a.tier, seed, t0)
    except core.MachineryError as e:
        print('MACHINERY-ERROR property=%s: %s' % (pid, e))
        return 2


if __name__ == '__main__':
    sys.exit(main())
