#!/usr/bin/env python3
"""Which lines of the library do the replayed cases reach?  (self-test, not a registered check)

Builds the executor with gcc --coverage in a scratch directory, runs every case file of the last run of a tier
(out/cases/*.<tier>.*.ndjson) without forking, and lists the executable lines of /repo/src and /repo/include that
no case reached.  A line never reached is a place where no check can see a change.

  selftest/coverage.py [quick|thorough]      -> selftest/coverage_report.json
"""
import glob
import json
import os
import re
import shutil
import subprocess
import sys
from concurrent.futures import ThreadPoolExecutor

VERIF = os.path.dirname(os.path.dirname(os.path.abspath(__file__)))
REPO = os.environ.get('VERIF_REPO', '/repo')
ROOT = '/tmp/verif_cov'


def sh(cmd, **kw):
    return subprocess.run(cmd, shell=True, stdout=subprocess.PIPE, stderr=subprocess.STDOUT, universal_newlines=True, **kw)


def main():
    tier = sys.argv[1] if len(sys.argv) > 1 else 'quick'
    shutil.rmtree(ROOT, ignore_errors=True)
    os.makedirs(ROOT)
    srcs = sorted(glob.glob(REPO + '/src/*.cpp')) + sorted(glob.glob(VERIF + '/harness/*.cpp'))

    def comp(src):
        return sh('cd %s && g++ -std=c++17 -O0 --coverage -DASAM_CMP_VERIF -I%s/include -I%s/harness -c %s -o %s.o'
                  % (ROOT, REPO, VERIF, src, os.path.basename(src)))
    with ThreadPoolExecutor(16) as ex:
        for r in ex.map(comp, srcs):
            if r.returncode:
                sys.exit(r.stdout[-2000:])
    r = sh('cd %s && g++ --coverage *.o -o exec -lpthread' % ROOT)
    if r.returncode:
        sys.exit(r.stdout[-2000:])
    cases = sorted(glob.glob('%s/out/cases/*.%s.*.ndjson' % (VERIF, tier)))
    ran = []
    for c in cases:
        if os.path.getsize(c) > 400e6:
            continue
        r = sh('cd %s && timeout 3000 ./exec %s /tmp/verif_cov/trace.ndjson --nofork' % (ROOT, c))
        ran.append((os.path.basename(c), r.returncode))
        print(os.path.basename(c), r.returncode, flush=True)
    os.remove(ROOT + '/trace.ndjson')
    sh('cd %s && gcov -r -s %s *.gcda > gcov.log 2>&1' % (ROOT, REPO))
    # merge the per-object .gcov files: a header line is reached if any translation unit reached it
    reached, lines = {}, {}
    for g in glob.glob(ROOT + '/*.gcov'):
        src = None
        for ln in open(g, errors='replace'):
            m = re.match(r'\s*([^:]+):\s*(\d+):(.*)', ln)
            if not m:
                continue
            cnt, no, text = m.group(1).strip(), int(m.group(2)), m.group(3)
            if no == 0:
                if text.startswith('Source:'):
                    src = text[len('Source:'):]
                continue
            if src is None or cnt == '-':
                continue
            key = (src, no)
            lines[key] = text.rstrip('\r\n')
            hit = not cnt.startswith('#') and not cnt.startswith('=')
            reached[key] = reached.get(key, False) or hit
    files = {}
    for (src, no), hit in sorted(reached.items()):
        if 'harness' in src or src.startswith('/usr'):
            continue
        f = files.setdefault(src, {'executable': 0, 'reached': 0, 'unreached': []})
        f['executable'] += 1
        if hit:
            f['reached'] += 1
        else:
            f['unreached'].append([no, lines[(src, no)].strip()])
    tot = sum(f['executable'] for f in files.values())
    hit = sum(f['reached'] for f in files.values())
    rep = {'tier': tier, 'case_files': ran, 'executable_lines': tot, 'reached_lines': hit, 'files': files}
    json.dump(rep, open(VERIF + '/selftest/coverage_report.json', 'w'), indent=1)
    print('%d of %d executable lines reached' % (hit, tot))
    for src, f in sorted(files.items()):
        for no, text in f['unreached']:
            print('  %s:%d  %s' % (src, no, text))
    shutil.rmtree(ROOT, ignore_errors=True)


if __name__ == '__main__':
    main()
