#!/usr/bin/env python3
"""Self-test: the judges must be total.  A judge that dies on an odd observation turns a violation into a machinery
error (exit 2) instead of a verdict.  For every component a small trace is recorded from the real code, then random
observation fields are corrupted (arrays emptied / truncated / extended, numbers changed, booleans flipped) and the
judge must still consume the whole trace (FAIL lines are expected, a TLC evaluation error is not).  It also shows the
binding: corrupted observations are flagged."""
import copy
import json
import os
import random
import sys

VERIF = os.path.dirname(os.path.dirname(os.path.abspath(__file__)))
sys.path.insert(0, VERIF)
os.environ.setdefault('VERIF_OUT', '/tmp/fuzzj_out')
from vlib import core, stages  # noqa: E402

# observation fields per event type that may be corrupted (inputs are left alone: they are ours)
OBS = {'enc.encode': ['frames', 'seq', 'dev', 'stream', 'fresh', 'decoded'], 'dec.decode': ['out', 'pend', 'solo'],
       'obj.set': ['raw', 'get'], 'obj.load': ['raw', 'get'], 'obj.new': ['raw', 'get'], 'obj.setData': ['raw', 'get', 'views', 'valid', 'decoded', 'freshraw'],
       'st.update': ['snap', 'count', 'devlookup'], 'st.removeDev': ['snap', 'count'], 'st.removeIf': ['snap'],
       'val.copy': ['slots'], 'val.assign': ['slots'], 'val.move': ['slots'], 'val.eq': ['eq', 'eqrev', 'neq'], 'val.make': ['slots'],
       'sys.emit': ['frames'], 'sys.deliver': ['out', 'snap', 'count', 'devlookup', 'frame'], 'sys.tecmp': ['out', 'snap', 'count'],
       'sys.lose': ['frame', 'snap'], 'st.adopt': ['snap', 'count'],
       'vld.payload': ['views'], 'vld.message': ['pkt'], 'enc.setDev': ['seq', 'dev'], 'dec.recheck': ['now']}


def corrupt(rng, v, depth=0):
    if isinstance(v, bool):
        return not v
    if isinstance(v, int):
        return rng.choice([0, 1, 255, 65535, v + 1, max(0, v - 1)])
    if isinstance(v, list):
        r = rng.random()
        if not v:
            return v                     # element type unknown: leave it
        if r < 0.2:
            return []
        if r < 0.4:
            return v[:rng.randrange(len(v))]
        if r < 0.5:
            return v + [v[-1]]
        k = rng.randrange(len(v))
        w = list(v)
        w[k] = corrupt(rng, w[k], depth + 1)
        return w
    if isinstance(v, dict):
        if not v:
            return v
        k = rng.choice(sorted(v))
        w = dict(v)
        w[k] = corrupt(rng, w[k], depth + 1)
        return w
    return v


def main():
    rng = random.Random(int(os.environ.get('VERIF_SEED', '1')))
    exe = core.build('plain')
    os.makedirs(core.OUT, exist_ok=True)
    plans = [('TraceEnc', lambda p: stages.enc_hist_random('quick', 3, p), 30), ('TraceDec', lambda p: stages.dec_faults('quick', 3, p), 12),
             ('TraceDec', lambda p: stages.dec_anyhist('quick', 3, p), 20), ('TraceObj', lambda p: stages.obj_builds('quick', 3, p), 40),
             ('TraceStatus', lambda p: stages.st_random('quick', 3, p), 3), ('TraceVal', lambda p: stages.val_random('quick', 3, p), 40),
             ('TraceValid', lambda p: stages.vld_random('quick', 3, p), 5)]
    def sys_cases(p):
        logp, _ = core.mc('MC_Sys', 'MC_Sys_walks.cfg', 'fz.sys', extra='-simulate num=3 -depth 45 -seed 3', workers=2)
        core.dump_tree_cases(logp, 'st', 'fzsys-', p, per_episode=3000, extra=stages.ST_PROBE_SYS)
    plans.append(('TraceSys', sys_cases, 2))
    bad = 0
    for k, (module, gen, neps) in enumerate(plans):
        cases = os.path.join(core.OUT, 'fz%d.cases' % k)
        gen(cases)
        lines = open(cases).read().splitlines()[:neps]
        open(cases, 'w').write('\n'.join(lines) + '\n')
        trace = os.path.join(core.OUT, 'fz%d.trace' % k)
        core.run_exec(exe, cases, trace)
        events = [json.loads(l) for l in open(trace) if l.strip()]
        flagged = total = 0
        for rnd in range(int(os.environ.get('FUZZ_ROUNDS', '6'))):
            ev = copy.deepcopy(events)
            idx = [i for i, e in enumerate(ev) if e.get('e') in OBS and any(f in e for f in OBS[e['e']])]
            hit = rng.sample(idx, min(len(idx), 25))
            for i in hit:
                f = rng.choice([f for f in OBS[ev[i]['e']] if f in ev[i]])
                if f == 'slots' and ev[i][f]:
                    # the list of slots is the executor's own bookkeeping: corrupt an observed value inside one slot
                    k2 = rng.randrange(len(ev[i][f]))
                    ev[i][f][k2]['v'] = corrupt(rng, ev[i][f][k2]['v'])
                else:
                    ev[i][f] = corrupt(rng, ev[i][f])
            t2 = os.path.join(core.OUT, 'fz%d.%d.trace' % (k, rnd))
            with open(t2, 'w') as g:
                for e in ev:
                    g.write(json.dumps(e, separators=(',', ':')) + '\n')
            try:
                j = core.judge(module, t2, 'fz%d.%d' % (k, rnd), nchunks=1)
                flagged += len(j['fails'])
                total += len(hit)
            except core.MachineryError as e:
                bad += 1
                print('JUDGE DIED: %s round %d (trace kept: %s)\n%s' % (module, rnd, t2, str(e)[-900:]))
                continue
            os.remove(t2)
        print('%-12s plan %d: %d corrupted observations, %d failing events reported' % (module, k, total, flagged))
    print('judges died: %d' % bad)
    return 1 if bad else 0


if __name__ == '__main__':
    sys.exit(main())
