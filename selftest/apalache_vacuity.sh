#!/bin/sh
# Non-vacuity of the Apalache proof stages: a copy of each module with its rule weakened must be REFUTED.
#   ApaNoMix:   the continuation test "counter = last + 1" weakened to ">="      -> the inductive step fails
#   ApaPending: a continuation that does not count what it received               -> the inductive step fails
d=$(mktemp -d /tmp/apavac.XXXXXX); cd "$(dirname "$0")/../spec/apalache" || exit 2
sed 's/ELSE IF open \/\\ c = cur + 1 THEN/ELSE IF open \/\\ c >= cur + 1 THEN/; s/MODULE ApaNoMix/MODULE ApaNoMixBad/' ApaNoMix.tla > $d/ApaNoMixBad.tla
sed "s/received' = \[received EXCEPT !\[e\] = @ + 16 + n\]/received' = received/; s/MODULE ApaPending/MODULE ApaPendingBad/" ApaPending.tla > $d/ApaPendingBad.tla
rc=0
for m in ApaNoMixBad ApaPendingBad; do
  (cd $d && timeout 900 apalache-mc check --out-dir=$d/o --cinit=CInit --init=IndInv --inv=IndInv --length=1 $m.tla > $d/$m.log 2>&1)
  if grep -q "Checker has found an error" $d/$m.log; then echo "$m: refuted (as it must be)"; else echo "$m: NOT refuted"; rc=1; fi
done
rm -rf $d; exit $rc
