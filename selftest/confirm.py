#!/usr/bin/env python3
"""selftest/confirm.py <property> <letter> [checks...]: confirm a sub-agent's change myself in a scratch worktree
(demo passes without, fails with; the suite still passes with the change), then keep it as seeded/<property>-<letter>/."""
import json
import os
import shutil
import subprocess
import sys

VERIF = os.path.dirname(os.path.dirname(os.path.abspath(__file__)))


def sh(cmd):
    return subprocess.run(cmd, shell=True, stdout=subprocess.PIPE, stderr=subprocess.STDOUT, universal_newlines=True)


def main():
    prop, letter = sys.argv[1], sys.argv[2]
    checks = sys.argv[3:] or [prop]
    src = os.environ.get('SA_SRC') or '/tmp/sa_out/%s' % prop      # SA_SRC=<dir of patchN.diff ...> SA_ID=<seeded id>
    patch = '%s/patch%s.diff' % (src, letter)
    demo = '%s/demo%s.cpp' % (src, letter)
    wt = '/tmp/cf_%s%s' % (prop, letter)
    sh('git -C /repo worktree remove --force %s; rm -rf %s' % (wt, wt))
    ran = []
    try:
        r = sh('git -C /repo worktree add --detach %s HEAD' % wt)
        flags = '-pthread ' + os.environ.get('EXTRA_FLAGS', '')
        txt = open(demo).read() + open('%s/notes%s.md' % (src, letter)).read()
        if 'fsanitize=address' in txt:
            flags += ' -fsanitize=address -g'
        if 'fsanitize=thread' in txt:
            flags += ' -fsanitize=thread -g'
        build = 'g++ -std=c++17 -O1 %s -I%s/include %s/src/*.cpp %s -o %s/demo' % (flags, wt, wt, demo, wt)
        run = 'cd %s && (timeout 300 ./demo > /dev/null 2>&1; echo $?)' % wt
        if 'valgrind' in txt:
            run = 'cd %s && (timeout 600 valgrind -q --error-exitcode=1 ./demo > /dev/null 2>&1; echo $?)' % wt
        b0 = sh(build)
        rc0 = sh(run).stdout.strip().splitlines()[-1]
        a = sh('git -C %s apply %s' % (wt, patch))
        if a.returncode != 0:
            print('patch does not apply', a.stdout)
            return 1
        suite = sh('cmake -G Ninja -S %s -B %s/_build > /dev/null 2>&1 && cmake --build %s/_build > /dev/null 2>&1; ctest --test-dir %s/_build 2>&1 | tail -3' % (wt, wt, wt, wt))
        ok_suite = '100% tests passed' in suite.stdout
        b1 = sh(build)
        rcs = [sh(run).stdout.strip().splitlines()[-1] for _ in range(3 if 'thread' in txt else 1)]
        rc1 = max(rcs)
        ran = [build, 'demo without the change: exit %s' % rc0, 'suite with the change: %s' % ('passes' if ok_suite else suite.stdout[-200:]),
               'demo with the change: exit %s' % rc1]
        print('%s-%s: demo without=%s with=%s suite=%s' % (prop, letter, rc0, rc1, ok_suite))
        if rc0 != '0' or rc1 == '0' or not ok_suite or b0.returncode or b1.returncode:
            print('NOT CONFIRMED', b0.stdout[-300:], b1.stdout[-300:])
            return 1
    finally:
        sh('git -C /repo worktree remove --force %s; rm -rf %s' % (wt, wt))
    d = os.path.join(VERIF, 'seeded', os.environ.get('SA_ID') or '%s-%s' % (prop, letter))
    os.makedirs(d, exist_ok=True)
    shutil.copy(patch, d + '/patch.diff')
    shutil.copy(demo, d + '/demo.cpp')
    shutil.copy('%s/notes%s.md' % (src, letter), d + '/notes.md')
    json.dump({'property': prop, 'checks': checks, 'kind': 'change written by an independent sub-agent from the property text only',
               'needs_to_manifest': 'see notes.md', 'confirmed_by_me': ran, 'passes_existing_suite': True}, open(d + '/meta.json', 'w'), indent=1)
    return 0


if __name__ == '__main__':
    sys.exit(main())
