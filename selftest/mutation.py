#!/usr/bin/env python3
"""Systematic first-order mutation of the library sources (self-test, never part of the registered checks).

  selftest/mutation.py generate            enumerate mutants -> /tmp/mutation/mutants.json
  selftest/mutation.py survive [N]         build + run the 294-test suite on each mutant (N workers); survivors pass it
  selftest/mutation.py recheck [N]         the survivors not reported so far, once more with the checks as they are now
  selftest/mutation.py check [N] [max]     run the quick checks of the properties anchored in the mutated file on survivors
  selftest/mutation.py report              summary -> selftest/mutation_report.json

A mutant that survives the suite and all mapped checks is either equivalent (no observable change) or a blind spot:
those are listed for manual triage.  Scratch worktrees and build trees live under /tmp/mutation and are removed by
`selftest/mutation.py clean`."""
import json
import os
import re
import shutil
import subprocess
import sys
from concurrent.futures import ThreadPoolExecutor

VERIF = os.path.dirname(os.path.dirname(os.path.abspath(__file__)))
ROOT = '/tmp/mutation'
FILES = ['src/encoder.cpp', 'src/decoder.cpp', 'src/packet.cpp', 'src/payload.cpp', 'src/status.cpp', 'src/device_status.cpp',
         'src/interface_status.cpp', 'src/can_payload_base.cpp', 'src/lin_payload.cpp', 'src/ethernet_payload.cpp',
         'src/analog_payload.cpp', 'src/capture_module_payload.cpp', 'src/interface_payload.cpp', 'src/message_header.cpp',
         'src/cmp_header.cpp', 'src/tecmp_decoder.cpp', 'src/tecmp_converter.cpp', 'src/tecmp_can_payload.cpp',
         'src/tecmp_lin_payload.cpp', 'src/tecmp_header.cpp', 'src/tecmp_payload.cpp', 'include/asam_cmp/payload_type.h',
         'include/asam_cmp/payload.h', 'include/asam_cmp/can_payload_base.h']


def sh(cmd, **kw):
    return subprocess.run(cmd, shell=True, stdout=subprocess.PIPE, stderr=subprocess.STDOUT, universal_newlines=True, **kw)


def file_props():
    m = {}
    for l in open(os.path.join(VERIF, 'properties.jsonl')):
        p = json.loads(l)
        for f in p['anchors']['files']:
            m.setdefault(os.path.basename(f).split('.')[0], set()).add(p['id'])
    return m


REL = [(r'(?<![<>=!-])<(?![<=])', '<='), (r'<=', '<'), (r'(?<![<>=!-])>(?![>=])', '>='), (r'>=', '>'), (r'==', '!='), (r'!=', '==')]


def mutants_of_line(line):
    """Yield (description, new line) for one source line (without its line ending)."""
    code = line.split('//')[0]
    st = code.strip()
    if not st or st.startswith('#') or st.startswith('*') or st.startswith('/*') or 'static_assert' in st or st.startswith('using ') \
            or st.startswith('template') or 'include' in st:
        return
    # relational operators (not in template / include lines)
    if '<<' not in code and '>>' not in code and 'std::' not in code.split('(')[0] and '->' not in code:
        pass
    for pat, rep in REL:
        for m in re.finditer(pat, code):
            seg = code[max(0, m.start() - 12):m.end() + 12]
            if 'template' in seg or 'static_cast' in seg or 'reinterpret_cast' in seg or 'std::' in code[max(0, m.start() - 30):m.start()] and '<' in m.group(0) and '(' not in code[:m.start()]:
                continue
            if re.search(r'(vector|shared_ptr|unique_ptr|map|pair|function|is_same|enable_if|iterator_traits|numeric_limits)\s*$', code[:m.start()]):
                continue
            if m.group(0) in ('<', '>') and re.search(r'[A-Za-z_:]\s*$', code[:m.start()]) and re.search(r'^\s*[A-Za-z_:]', code[m.end():]) and \
                    ('if' not in code and 'while' not in code and 'return' not in code and '?' not in code and '=' not in code):
                continue
            yield ('%s -> %s' % (m.group(0), rep), line[:m.start()] + rep + line[m.end():])
    for a, b in (('&&', '||'), ('||', '&&')):
        for m in re.finditer(re.escape(a), code):
            yield ('%s -> %s' % (a, b), line[:m.start()] + b + line[m.end():])
    for m in re.finditer(r'(?<![\w.])(\d+)(?![\w.xX])', code):
        n = int(m.group(1))
        if n > 70000:
            continue
        for rep in ({n + 1, max(0, n - 1)} - {n}):
            yield ('%d -> %d' % (n, rep), line[:m.start()] + str(rep) + line[m.end():])
    for m in re.finditer(r'0x([0-9A-Fa-f]+)', code):
        v = int(m.group(1), 16)
        width = len(m.group(1))
        for bit in {0, (width * 4) - 1, (width * 2)}:
            rep = '0x%0*X' % (width, v ^ (1 << bit))
            yield ('%s -> %s' % (m.group(0), rep), line[:m.start()] + rep + line[m.end():])
    for a, b in (('true', 'false'), ('false', 'true')):
        for m in re.finditer(r'\b%s\b' % a, code):
            yield ('%s -> %s' % (a, b), line[:m.start()] + b + line[m.end():])
    for m in re.finditer(r'swapEndian\(([^()]+)\)', code):
        yield ('swapEndian dropped', line[:m.start()] + m.group(1) + line[m.end():])
    for a, b in ((' + ', ' - '), (' - ', ' + '), ('+=', '-='), ('-=', '+='), ('++', '--'), (' | ', ' & '), (' & ', ' | '), ('|=', '&=')):
        for m in re.finditer(re.escape(a), code):
            yield ('%s -> %s' % (a.strip(), b.strip()), line[:m.start()] + b + line[m.end():])
    # statement deletion: a plain call or assignment statement
    if re.match(r'^\s*[\w:.\->\[\](){}+*&, ]+(\(|=|\+\+|--).*;\s*$', code) and 'return' not in code and not re.match(r'^\s*(const\s+)?(auto|int|size_t|uint\d+_t|bool|std::|[A-Z]\w*(::\w+)*\s+\w+\s*(=|\(|\{|;))', code) \
            and 'case ' not in code and not st.startswith('}'):
        ind = re.match(r'^\s*', line).group(0)
        yield ('statement deleted', ind + ';')


def generate():
    os.makedirs(ROOT, exist_ok=True)
    out = []
    for f in FILES:
        data = open(os.path.join('/repo', f), 'rb').read().decode()
        nl = '\r\n' if '\r\n' in data else '\n'
        lines = data.split(nl)
        depth_comment = False
        for i, line in enumerate(lines):
            if '/*' in line:
                depth_comment = True
            if depth_comment:
                if '*/' in line:
                    depth_comment = False
                continue
            if 'ASAM_CMP_VERIF' in line:
                continue
            seen = set()
            for desc, new in mutants_of_line(line):
                if new == line or new in seen:
                    continue
                seen.add(new)
                out.append({'id': len(out), 'file': f, 'line': i + 1, 'desc': desc, 'old': line, 'new': new})
    json.dump(out, open(os.path.join(ROOT, 'mutants.json'), 'w'), indent=0)
    print('%d mutants over %d files' % (len(out), len(FILES)))


def apply(wt, m):
    p = os.path.join(wt, m['file'])
    data = open(p, 'rb').read().decode()
    nl = '\r\n' if '\r\n' in data else '\n'
    lines = data.split(nl)
    assert lines[m['line'] - 1] == m['old'], (m, lines[m['line'] - 1])
    lines[m['line'] - 1] = m['new']
    open(p, 'wb').write(nl.join(lines).encode())


def worker_tree(k):
    wt = os.path.join(ROOT, 'wt%d' % k)
    if not os.path.exists(wt):
        sh('git -C /repo worktree add --detach %s HEAD' % wt)
        sh('cmake -G Ninja -S %s -B %s/_build > /dev/null 2>&1 && cmake --build %s/_build > /dev/null 2>&1' % (wt, wt, wt))
    return wt


def survive(nworkers):
    ms = json.load(open(os.path.join(ROOT, 'mutants.json')))
    resp = os.path.join(ROOT, 'survive.json')
    done = json.load(open(resp)) if os.path.exists(resp) else {}
    todo = [m for m in ms if str(m['id']) not in done]
    chunks = [todo[k::nworkers] for k in range(nworkers)]

    def run(k):
        wt = worker_tree(k)
        res = {}
        for m in chunks[k]:
            sh('git -C %s checkout -- .' % wt)
            apply(wt, m)
            b = sh('cmake --build %s/_build 2>&1 | tail -5' % wt)
            if 'error' in b.stdout or 'FAILED' in b.stdout:
                res[str(m['id'])] = 'nocompile'
            else:
                t = sh('cd %s/_build && timeout 120 ./bin/test_asam_cmp 2>&1 | tail -3' % wt)
                res[str(m['id'])] = 'survived' if '[  PASSED  ] 293 tests.' in t.stdout and 'FAILED' not in t.stdout else 'killed-by-suite'
            if len(res) % 20 == 0:
                json.dump(res, open(os.path.join(ROOT, 'survive.%d.part' % k), 'w'))
        sh('git -C %s checkout -- .' % wt)
        return res

    with ThreadPoolExecutor(nworkers) as ex:
        for r in ex.map(run, range(nworkers)):
            done.update(r)
    json.dump(done, open(resp, 'w'))
    from collections import Counter
    print(Counter(done.values()))


def check(nworkers, limit, redo=False):
    ms = {m['id']: m for m in json.load(open(os.path.join(ROOT, 'mutants.json')))}
    surv = [int(k) for k, v in json.load(open(os.path.join(ROOT, 'survive.json'))).items() if v == 'survived']
    resp = os.path.join(ROOT, 'check.json')
    done = json.load(open(resp)) if os.path.exists(resp) else {}
    fp = file_props()
    import random
    order = sorted(surv)
    random.Random(7).shuffle(order)             # a fixed random order: a prefix is a sample over all files
    todo = [i for i in order if str(i) not in done][:limit]
    if redo:
        # the survivors no check reported (or on which a check broke), once more with the checks as they are now
        todo = [i for i in order if str(i) in done and 1 not in done[str(i)].values()]
    chunks = [todo[k::nworkers] for k in range(nworkers)]

    def run(k):
        wt = os.path.join(ROOT, 'cwt%d' % k)
        if not os.path.exists(wt):
            sh('git -C /repo worktree add --detach %s HEAD' % wt)
        for i in chunks[k]:
            m = ms[i]
            sh('git -C %s checkout -- .' % wt)
            apply(wt, m)
            base = os.path.basename(m['file']).split('.')[0]
            props = sorted(fp.get(base, []))
            if 'payload' in base and 'tecmp' not in base and 'C04' not in props:
                props.append('C04')            # the validity verdict of a decoded message is C04's, whatever file decides it
            res = {}
            for pid in props:
                env = dict(os.environ, VERIF_REPO=wt, VERIF_OUT=os.path.join(ROOT, 'out%d' % k), VERIF_JUDGES='6')
                r = sh('python3 %s/check.py %s --tier quick' % (VERIF, pid), env=env)
                res[pid] = r.returncode
                if r.returncode == 1:
                    break                      # detected: no need to run the remaining checks
            done[str(i)] = res
            json.dump(done, open(resp + '.%d' % k, 'w'))
        sh('git -C %s checkout -- .' % wt)

    with ThreadPoolExecutor(nworkers) as ex:
        list(ex.map(run, range(nworkers)))
    json.dump(done, open(resp, 'w'))


def report():
    ms = {m['id']: m for m in json.load(open(os.path.join(ROOT, 'mutants.json')))}
    sv = json.load(open(os.path.join(ROOT, 'survive.json')))
    ck = {}
    for f in os.listdir(ROOT):
        if f.startswith('check.json'):
            ck.update(json.load(open(os.path.join(ROOT, f))))
    from collections import Counter
    c = Counter(sv.values())
    det = {i: r for i, r in ck.items() if 1 in r.values()}
    und = {i: r for i, r in ck.items() if 1 not in r.values()}
    rep = {'mutants': len(ms), 'suite': dict(c), 'survivors_checked': len(ck), 'detected_by_checks': len(det),
           'machinery_errors': sum(1 for r in ck.values() if 2 in r.values() and 1 not in r.values()),
           'undetected': [dict(ms[int(i)], checks=r) for i, r in sorted(und.items(), key=lambda x: int(x[0]))]}
    json.dump(rep, open(os.path.join(VERIF, 'selftest', 'mutation_report.json'), 'w'), indent=1)
    print(json.dumps({k: v for k, v in rep.items() if k != 'undetected'}))
    for u in rep['undetected']:
        print('  undetected #%d %s:%d  %s   [%s]  %s' % (u['id'], u['file'], u['line'], u['desc'], u['old'].strip()[:90], u['checks']))


def clean():
    for d in os.listdir(ROOT):
        if d.startswith('wt') or d.startswith('cwt'):
            sh('git -C /repo worktree remove --force %s' % os.path.join(ROOT, d))
    shutil.rmtree(ROOT, ignore_errors=True)


if __name__ == '__main__':
    cmd = sys.argv[1] if len(sys.argv) > 1 else 'report'
    if cmd == 'generate':
        generate()
    elif cmd == 'survive':
        survive(int(sys.argv[2]) if len(sys.argv) > 2 else 4)
    elif cmd == 'check':
        check(int(sys.argv[2]) if len(sys.argv) > 2 else 3, int(sys.argv[3]) if len(sys.argv) > 3 else 10 ** 6)
    elif cmd == 'recheck':
        check(int(sys.argv[2]) if len(sys.argv) > 2 else 3, 10 ** 6, redo=True)
    elif cmd == 'report':
        report()
    elif cmd == 'clean':
        clean()
