#!/usr/bin/env python3
"""Self-test of the checks against seeded changes (never part of the registered checks).

  selftest/mutants.py [ids...]      default: every directory under /verif/seeded

For each seeded/<id>/ (patch.diff + meta.json {"property": "Cxx", "checks": ["Cxx", ...]}) a scratch git worktree of
/repo is created under /tmp, the patch is applied there, the 294-test suite is built and run (the change must pass it),
and the listed checks run against the worktree (VERIF_REPO) with their scratch area relocated (VERIF_OUT).  The
worktree and all build output are removed afterwards.  Results go to selftest/results.json.
"""
import json
import os
import shutil
import subprocess
import sys
from concurrent.futures import ThreadPoolExecutor

VERIF = os.path.dirname(os.path.dirname(os.path.abspath(__file__)))


def sh(cmd, **kw):
    return subprocess.run(cmd, shell=True, stdout=subprocess.PIPE, stderr=subprocess.STDOUT, universal_newlines=True, **kw)


def one(mid):
    d = os.path.join(VERIF, 'seeded', mid)
    meta = json.load(open(os.path.join(d, 'meta.json')))
    wt = '/tmp/mut_%s' % mid
    out = '/tmp/mutout_%s' % mid
    sh('git -C /repo worktree remove --force %s; rm -rf %s %s' % (wt, wt, out))
    res = {'id': mid, 'property': meta.get('property'), 'checks': {}}
    try:
        r = sh('git -C /repo worktree add --detach %s HEAD && git -C %s apply %s' % (wt, wt, os.path.join(d, 'patch.diff')))
        if r.returncode != 0:
            res['error'] = 'patch does not apply: ' + r.stdout[-400:]
            return res
        if not os.environ.get('SKIP_SUITE'):
            r = sh('cmake -G Ninja -S %s -B %s/_build > /dev/null 2>&1 && cmake --build %s/_build 2>&1 | tail -3 && '
                   'ctest --test-dir %s/_build --timeout 900 2>&1 | tail -3' % (wt, wt, wt, wt))
            res['suite_passes'] = '100% tests passed' in r.stdout
            res['suite_tail'] = r.stdout[-300:]
        for pid in meta.get('checks', [meta['property']]):
            env = dict(os.environ, VERIF_REPO=wt, VERIF_OUT=out)
            r = sh('python3 %s/check.py %s --tier %s' % (VERIF, pid, os.environ.get('MUT_TIER', 'quick')), env=env)
            res['checks'][pid] = {'rc': r.returncode,
                                  'lines': [l for l in r.stdout.splitlines() if l.startswith(('VIOLATION', 'KNOWN', 'MACHINERY', 'NOTE'))][:4]}
    finally:
        sh('git -C /repo worktree remove --force %s; rm -rf %s %s' % (wt, wt, out))
    return res


def main():
    ids = sys.argv[1:] or sorted(x for x in os.listdir(os.path.join(VERIF, 'seeded')) if os.path.isdir(os.path.join(VERIF, 'seeded', x)))
    par = int(os.environ.get('MUT_PAR', '3'))
    p = os.path.join(VERIF, 'selftest', 'results.json')
    results = []

    def save(r):
        # written after every finished entry: a run that is stopped early keeps what it has done
        old = {}
        if os.path.exists(p):
            old = {x['id']: x for x in json.load(open(p))}
        old[r['id']] = r
        tmp = p + '.tmp'
        json.dump([old[k] for k in sorted(old)], open(tmp, 'w'), indent=1)
        os.replace(tmp, p)

    from concurrent.futures import as_completed
    with ThreadPoolExecutor(par) as ex:
        futs = [ex.submit(one, i) for i in ids]
        for f in as_completed(futs):
            r = f.result()
            results.append(r)
            save(r)
    results.sort(key=lambda r: ids.index(r['id']))
    for r in results:
        det = [pid for pid, c in r['checks'].items() if c['rc'] == 1]
        print('%-28s suite=%s detected_by=%s %s' % (r['id'], r.get('suite_passes'), det, r.get('error', '')))


if __name__ == '__main__':
    main()
