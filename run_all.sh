#!/bin/sh
# run every registered check (tier from $1, default quick); prints one line per property
# usage: run_all.sh [quick|thorough] [property ...]
tier=${1:-quick}; mkdir -p $(dirname $0)/out
[ $# -gt 0 ] && shift
props=${*:-C01 C02 C03 C04 C05 C06 C07 C08 C09 C10 C11 C12 C13 C14 C15 C16 C17 C18 C19 C20}
for p in $props; do
  start=$(date +%s)
  python3 $(dirname $0)/check.py $p --tier $tier > $(dirname $0)/out/run_$p.log 2>&1
  rc=$?
  echo "$p rc=$rc $(( $(date +%s) - start ))s $(grep -E 'VIOLATION|KNOWN-FINDING|MACHINERY' $(dirname $0)/out/run_$p.log | head -2 | tr '\n' ' ')"
done
